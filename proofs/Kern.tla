---- MODULE Kern ----
EXTENDS Integers, TLAPS
Modes == {"down","up","ceiling","floor","half_up","half_down","half_even","05up"}
\* half \in {-1,0,1}; inexact; odd, last05 are facts about the truncated coefficient
Inc(mode, neg, odd, last05, half, inexact) ==
  CASE mode = "down" -> FALSE
    [] mode = "up" -> inexact
    [] mode = "ceiling" -> inexact /\ ~neg
    [] mode = "floor" -> inexact /\ neg
    [] mode = "half_down" -> half > 0
    [] mode = "half_even" -> half > 0 \/ (half = 0 /\ odd)
    [] mode = "05up" -> inexact /\ last05
    [] OTHER -> half >= 0 /\ inexact
B2I(b) == IF b THEN 1 ELSE 0
Mag(mode, C, neg, odd, last05, half, inexact) == C + B2I(Inc(mode, neg, odd, last05, half, inexact))
Signed(mode, C, neg, odd, last05, half, inexact) == IF neg THEN -Mag(mode, C, neg, odd, last05, half, inexact) ELSE Mag(mode, C, neg, odd, last05, half, inexact)

THEOREM Bracket ==
  ASSUME NEW m \in Modes, NEW C \in Nat, NEW neg \in BOOLEAN, NEW odd \in BOOLEAN, NEW last05 \in BOOLEAN,
         NEW half \in {-1,0,1}, NEW inexact \in BOOLEAN, (~inexact) => half = -1
  PROVE  /\ Mag("down", C, neg, odd, last05, half, inexact) <= Mag(m, C, neg, odd, last05, half, inexact)
         /\ Mag(m, C, neg, odd, last05, half, inexact) <= Mag("up", C, neg, odd, last05, half, inexact)
         /\ Signed("floor", C, neg, odd, last05, half, inexact) <= Signed(m, C, neg, odd, last05, half, inexact)
         /\ Signed(m, C, neg, odd, last05, half, inexact) <= Signed("ceiling", C, neg, odd, last05, half, inexact)
         /\ (~inexact) => Mag(m, C, neg, odd, last05, half, inexact) = C
  BY DEF Modes, Inc, B2I, Mag, Signed

THEOREM HalfPair ==
  ASSUME NEW m \in {"half_up", "half_down", "half_even", ""}, NEW C \in Nat, NEW neg \in BOOLEAN, NEW odd \in BOOLEAN,
         NEW last05 \in BOOLEAN, NEW half \in {-1,0,1}, NEW inexact \in BOOLEAN, (~inexact) => half = -1
  PROVE  \/ Mag(m, C, neg, odd, last05, half, inexact) = Mag("down", C, neg, odd, last05, half, inexact)
         \/ Mag(m, C, neg, odd, last05, half, inexact) = Mag("up", C, neg, odd, last05, half, inexact)
  BY DEF Inc, B2I, Mag

THEOREM InexactDiffer ==
  ASSUME NEW C \in Nat, NEW neg \in BOOLEAN, NEW odd \in BOOLEAN, NEW last05 \in BOOLEAN, NEW half \in {-1,0,1}
  PROVE  /\ Mag("up", C, neg, odd, last05, half, TRUE) = Mag("down", C, neg, odd, last05, half, TRUE) + 1
         /\ Signed("ceiling", C, neg, odd, last05, half, TRUE) = Signed("floor", C, neg, odd, last05, half, TRUE) + 1
  BY DEF Inc, B2I, Mag, Signed

\* mirrored modes: negating the value swaps floor and ceiling and leaves the other modes alone
Mirror(m) == IF m = "floor" THEN "ceiling" ELSE IF m = "ceiling" THEN "floor" ELSE m
THEOREM MirrorLaw ==
  ASSUME NEW m \in Modes, NEW C \in Nat, NEW neg \in BOOLEAN, NEW odd \in BOOLEAN, NEW last05 \in BOOLEAN,
         NEW half \in {-1,0,1}, NEW inexact \in BOOLEAN
  PROVE  Signed(Mirror(m), C, ~neg, odd, last05, half, inexact) = -Signed(m, C, neg, odd, last05, half, inexact)
  BY DEF Modes, Mirror, Inc, B2I, Mag, Signed
\* monotone in the operand: a larger truncated coefficient, or the same one with a larger discarded part,
\* never rounds to a smaller magnitude (C20: Round is monotone; the sign case follows by MirrorLaw)
THEOREM Monotone ==
  ASSUME NEW m \in Modes \cup {""}, NEW C1 \in Nat, NEW C2 \in Nat, NEW neg \in BOOLEAN,
         NEW odd1 \in BOOLEAN, NEW odd2 \in BOOLEAN, NEW l1 \in BOOLEAN, NEW l2 \in BOOLEAN,
         NEW half1 \in {-1,0,1}, NEW half2 \in {-1,0,1}, NEW inx1 \in BOOLEAN, NEW inx2 \in BOOLEAN,
         \/ C1 < C2
         \/ (C1 = C2 /\ odd1 = odd2 /\ l1 = l2 /\ half1 <= half2 /\ (inx1 => inx2))
  PROVE  Mag(m, C1, neg, odd1, l1, half1, inx1) <= Mag(m, C2, neg, odd2, l2, half2, inx2)
  BY DEF Modes, Inc, B2I, Mag
====
