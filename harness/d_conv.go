package main

import (
	"encoding/json"
	"fmt"
	"math"
	"math/big"

	"github.com/cockroachdb/apd/v3"
)

// Flt is a float64 as the exact dyadic rational m*2^k.
type Flt struct {
	Cls  string `json:"cls"` // zero | fin | inf | nan
	N    bool   `json:"n"`
	M    []int  `json:"m"`
	K    int    `json:"k"`
	Bits string `json:"bits"`
}

func encFlt(f float64) Flt {
	b := math.Float64bits(f)
	out := Flt{N: b>>63 == 1, M: []int{}, Bits: fmt.Sprintf("%016x", b)}
	exp := int((b >> 52) & 0x7ff)
	frac := b & (1<<52 - 1)
	switch {
	case exp == 0x7ff && frac != 0:
		out.Cls = "nan"
	case exp == 0x7ff:
		out.Cls = "inf"
	case exp == 0 && frac == 0:
		out.Cls = "zero"
	case exp == 0:
		out.Cls = "fin"
		out.M = limbsOf(new(big.Int).SetUint64(frac))
		out.K = -1074
	default:
		out.Cls = "fin"
		out.M = limbsOf(new(big.Int).SetUint64(frac | 1<<52))
		out.K = exp - 1075
	}
	return out
}

// IntV is an integer as sign + limbs.
type IntV struct {
	N bool  `json:"n"`
	C []int `json:"c"`
}

func encInt64(v int64) IntV {
	b := big.NewInt(v)
	return IntV{N: v < 0, C: limbsOf(b)}
}

// CEv: conversion events (C17, C13).
type CEv struct {
	K     string `json:"k"`  // "cv"
	Ck    string `json:"ck"` // int64 | setint | float64 | setfloat | modf | codec
	Fn    string `json:"fn"`
	D     Dec    `json:"d"`
	V     IntV   `json:"v"`
	E     int    `json:"e"`
	F     Flt    `json:"f"`
	Back  Flt    `json:"back"`
	Ok    bool   `json:"ok"`
	Res   Dec    `json:"res"`
	Res2  Dec    `json:"res2"`
	HasI  bool   `json:"hasi"`
	HasF  bool   `json:"hasf"`
	DA    Dec    `json:"da"`
	Err   string `json:"err"`
	Panic string `json:"panic"`
	Key   string `json:"key"`
}

func newC(ck, fn string) CEv {
	return CEv{K: "cv", Ck: ck, Fn: fn, D: none, V: IntV{C: []int{}}, F: Flt{Cls: "zero", M: []int{}}, Back: Flt{Cls: "zero", M: []int{}}, Res: none, Res2: none, DA: none}
}

func guard(ev *CEv) {
	if r := recover(); r != nil {
		ev.Panic = fmt.Sprint(r)
	}
}

func mkInt64(dj Dec) (ev CEv) {
	ev = newC("int64", "Int64")
	ev.D = dj
	ev.Key = "int64|" + decStr(dj)
	defer guard(&ev)
	d := decDec(dj)
	v, err := d.Int64()
	ev.Ok = err == nil
	if err == nil {
		ev.V = encInt64(v)
	}
	ev.DA = encDec(d)
	return ev
}

func mkSetInt(fn string, v int64, e int) (ev CEv) {
	ev = newC("setint", fn)
	ev.V = encInt64(v)
	ev.E = e
	ev.Key = fmt.Sprintf("setint|%s|%d|%d", fn, v, e)
	defer guard(&ev)
	pre := &apd.Decimal{Form: apd.NaN, Negative: true, Exponent: 77}
	pre.Coeff.SetInt64(123456789)
	switch fn {
	case "New":
		ev.Res = encDec(apd.New(v, int32(e)))
	case "SetInt64":
		ev.E = 0
		ev.Res = encDec(pre.SetInt64(v))
	case "SetFinite":
		ev.Res = encDec(pre.SetFinite(v, int32(e)))
	case "NewWithBigInt":
		ev.Res = encDec(apd.NewWithBigInt(apd.NewBigInt(v), int32(e)))
	case "ScanInt64":
		ev.E = 0
		err := pre.Scan(v)
		ev.Err = errStr(err)
		ev.Res = encDec(pre)
	}
	return ev
}

// mkNewBig: NewWithBigInt on an arbitrary-size integer; the argument must be represented exactly and left unchanged.
func mkNewBig(v *big.Int, e int) (ev CEv) {
	ev = newC("newbig", "NewWithBigInt")
	ev.V = IntV{N: v.Sign() < 0, C: limbsOf(v)}
	ev.E = e
	ev.Key = "newbig|" + v.String() + "|" + fmt.Sprint(e)
	if len(ev.Key) > 120 {
		ev.Key = ev.Key[:110] + fmt.Sprintf("..(%d bits)|%d", v.BitLen(), e)
	}
	defer guard(&ev)
	var arg apd.BigInt
	arg.SetMathBigInt(v)
	d := apd.NewWithBigInt(&arg, int32(e))
	ev.Res = encDec(d)
	// use the result in place, then look at the argument again
	d.Coeff.Add(&d.Coeff, apd.NewBigInt(1))
	after := arg.MathBigInt()
	ev.Back = Flt{Cls: "zero", M: limbsOf(after), N: after.Sign() < 0}
	return ev
}

func mkFloat64(dj Dec) (ev CEv) {
	ev = newC("float64", "Float64")
	ev.D = dj
	ev.Key = "float64|" + decStr(dj)
	defer guard(&ev)
	f, err := decDec(dj).Float64()
	ev.Err = errStr(err)
	ev.F = encFlt(f)
	return ev
}

func mkSetFloat(f float64) (ev CEv) {
	ev = newC("setfloat", "SetFloat64")
	ev.F = encFlt(f)
	ev.Key = "setfloat|" + ev.F.Bits
	defer guard(&ev)
	var d apd.Decimal
	_, err := d.SetFloat64(f)
	ev.Ok = err == nil
	ev.Err = errStr(err)
	if err == nil {
		ev.Res = encDec(&d)
		back, _ := d.Float64()
		ev.Back = encFlt(back)
	}
	// the same float into a destination that held another value (C06)
	used := apd.New(-987654321, 33)
	if _, err2 := used.SetFloat64(f); err2 == nil {
		ev.Res2 = encDec(used)
	}
	return ev
}

func mkModf(dj Dec, hasI, hasF bool, alias string) (ev CEv) {
	ev = newC("modf", "Modf"+alias)
	ev.D = dj
	ev.HasI, ev.HasF = hasI, hasF
	ev.Key = fmt.Sprintf("modf|%s|%v|%v|%s", decStr(dj), hasI, hasF, alias)
	defer guard(&ev)
	d := decDec(dj)
	var integ, frac *apd.Decimal
	if hasI {
		integ = &apd.Decimal{Form: apd.NaN, Negative: !dj.N, Exponent: 5}
		integ.Coeff.SetInt64(99)
	}
	if hasF {
		frac = &apd.Decimal{Form: apd.Infinite, Negative: !dj.N, Exponent: -5}
		frac.Coeff.SetInt64(77)
	}
	switch alias {
	case "I":
		integ = d
	case "F":
		frac = d
	}
	d.Modf(integ, frac)
	if integ != nil {
		ev.Res = encDec(integ)
	}
	if frac != nil {
		ev.Res2 = encDec(frac)
	}
	if alias == "" {
		ev.DA = encDec(d)
	} else {
		ev.DA = dj
	}
	return ev
}

func mkCodec(dj Dec) (ev CEv) {
	ev = newC("codec", "Compose(Decompose)")
	ev.D = dj
	ev.Key = "codec|" + decStr(dj)
	defer guard(&ev)
	d := decDec(dj)
	var buf []byte
	if len(dj.C)%2 == 0 {
		buf = make([]byte, 0, 64)
	}
	form, neg, coeff, exp := d.Decompose(buf)
	var back apd.Decimal
	err := back.Compose(form, neg, coeff, exp)
	ev.Ok = err == nil
	ev.Err = errStr(err)
	ev.Res = encDec(&back)
	// the same parts composed into a destination that held another value (C06 / C13)
	used := apd.New(987654321, 33)
	used.Negative = !neg
	if err2 := used.Compose(form, neg, coeff, exp); err2 == nil {
		ev.Res2 = encDec(used)
	}
	ev.DA = encDec(d)
	return ev
}

func init() {
	reexec["cv"] = func(line []byte) interface{} {
		var ev CEv
		if err := json.Unmarshal(line, &ev); err != nil {
			panic(err)
		}
		switch ev.Ck {
		case "int64":
			return mkInt64(ev.D)
		case "setint":
			v := bigOfLimbs(ev.V.C)
			if ev.V.N {
				v.Neg(v)
			}
			return mkSetInt(ev.Fn, v.Int64(), ev.E)
		case "newbig":
			return mkNewBig(bigOfIntV(ev.V), ev.E)
		case "float64":
			return mkFloat64(ev.D)
		case "setfloat":
			var b uint64
			fmt.Sscanf(ev.F.Bits, "%x", &b)
			return mkSetFloat(math.Float64frombits(b))
		case "modf":
			al := ""
			if len(ev.Fn) > 4 {
				al = ev.Fn[4:]
			}
			return mkModf(ev.D, ev.HasI, ev.HasF, al)
		case "codec":
			return mkCodec(ev.D)
		}
		panic("bad cv event")
	}
	drivers["conv"] = dConv
	drivers["codec"] = dCodec
}

func int64Boundaries() []int64 {
	out := []int64{0, 1, -1, 9, 10, -10, 99, 100, math.MaxInt64, math.MinInt64, math.MaxInt64 - 1, math.MinInt64 + 1,
		math.MaxInt32, math.MinInt32, 1 << 32, 1<<53 - 1, 1 << 53, -(1 << 53), 1000000000000000000, -1000000000000000000,
		922337203685477580, -922337203685477580, 9223372036854775800, -9223372036854775800}
	return out
}

func dConv(g *G) {
	vs := loadDecs("domainS.ndjson")
	// Int64: S, boundary coefficients x 10^k, trailing-zero and positive-exponent forms
	for _, v := range vs {
		g.emit(mkInt64(v), "int64/S")
		v.Hp = true
		g.emit(mkInt64(v), "int64/S-heap")
	}
	maxI := new(big.Int).SetInt64(math.MaxInt64)
	for _, delta := range []int64{-2, -1, 0, 1, 2, 3} {
		for _, neg := range []bool{false, true} {
			b := new(big.Int).Add(maxI, big.NewInt(delta))
			for k := 0; k <= 6; k++ {
				// b * 10^k with exponent -k (same value, trailing zeros), and b/10^j with exponent +j when exact
				sc := new(big.Int).Mul(b, new(big.Int).Exp(big.NewInt(10), big.NewInt(int64(k)), nil))
				g.emit(mkInt64(finDec(neg, sc, -k)), "int64/boundary")
				g.emit(mkInt64(finDec(neg, sc, -k-1)), "int64/boundary")
			}
		}
	}
	for _, c := range []int64{9, 92, 922, 9223, 92233720368, 922337203685477580, 922337203685477581, 1, 5} {
		for e := 0; e <= 20; e++ {
			for _, neg := range []bool{false, true} {
				g.emit(mkInt64(finDec(neg, bigInt(c), e)), "int64/posexp")
			}
		}
	}
	n := g.pick(20000, 500000)
	for i := 0; i < n; i++ {
		x := g.R.randL(10, 22)
		if g.R.bool() { // make it an integer with trailing zeros
			k := g.R.between(0, 8)
			b := bigOfLimbs(x.C)
			for j := 0; j < k; j++ {
				b.Mul(b, bigInt(10))
			}
			x = finDec(x.N, b, -k+g.R.between(0, 2))
		}
		if g.R.Intn(30) == 0 {
			x = specialDecs[g.R.Intn(len(specialDecs))]
		}
		x.Hp = g.R.Intn(3) == 0
		g.emit(mkInt64(x), "int64/seeded")
	}
	// SetInt64 / New / NewWithBigInt / SetFinite / Scan(int64)
	fns := []string{"New", "SetInt64", "SetFinite", "NewWithBigInt", "ScanInt64"}
	vals := int64Boundaries()
	for i := 0; i < g.pick(3000, 100000); i++ {
		vals = append(vals, int64(g.R.Uint64()>>uint(g.R.Intn(64)))*int64(1-2*g.R.Intn(2)))
	}
	for _, v := range vals {
		for _, fn := range fns {
			g.emit(mkSetInt(fn, v, g.R.between(-100000, 100000)), "setint")
		}
	}
	for i := 0; i < g.pick(3000, 60000); i++ {
		g.emit(mkNewBig(g.R.bigVal(), g.R.between(-50, 50)), "newbig")
	}
	// Modf: every exponent / digit-count relation on S and L, all nil patterns, aliased outputs
	modf := func(x Dec) {
		g.emit(mkModf(x, true, true, ""), "modf")
		g.emit(mkModf(x, true, false, ""), "modf")
		g.emit(mkModf(x, false, true, ""), "modf")
		g.emit(mkModf(x, false, false, ""), "modf")
		g.emit(mkModf(x, true, true, "I"), "modf/alias")
		g.emit(mkModf(x, true, true, "F"), "modf/alias")
	}
	for _, v := range vs {
		if v.F == 0 {
			modf(v)
		}
	}
	for i := 0; i < g.pick(15000, 400000); i++ {
		p := g.R.between(1, 45)
		x := g.R.randL(p, 3)
		nd := len(digitsOf(x))
		x.E = -nd + g.R.between(-4, 4)
		if g.R.Intn(4) == 0 {
			x.E = g.R.between(-200, 200)
		}
		modf(x)
	}
	// Float64: nearest
	for _, v := range vs {
		g.emit(mkFloat64(v), "float64/S")
	}
	for i := 0; i < g.pick(4000, 150000); i++ {
		var x Dec
		switch g.R.Intn(5) {
		case 0: // around a float's midpoint: decimal expansion of (2m+1)*2^(k-1) +- tiny
			f := math.Float64frombits(g.R.Uint64() & 0x7fefffffffffffff)
			if f > 1e30 || f < 1e-30 {
				f = g.R.Float64() * 1000
			}
			m := new(big.Float).SetPrec(200).SetFloat64(f)
			nx := new(big.Float).SetPrec(200).SetFloat64(math.Nextafter(f, math.Inf(1)))
			m.Add(m, nx).Quo(m, big.NewFloat(2))
			s := m.Text('e', 40)
			d, _, err := apd.NewFromString(s)
			if err != nil {
				continue
			}
			x = encDec(d)
			if g.R.bool() {
				x = g.R.perturb(x)
			}
		case 1:
			x = g.R.randL(20, 330)
		case 2: // near overflow / underflow
			x = g.R.randL(18, 3)
			x.E = []int{308, 307, 290, -324, -323, -330, -310}[g.R.Intn(7)] - len(digitsOf(x)) + 1
		default:
			x = g.R.randL(18, 30)
		}
		g.emit(mkFloat64(x), "float64/seeded")
	}
}

func floatBoundaries() []float64 {
	out := []float64{0, math.Copysign(0, -1), 1, -1, 0.1, 0.2, 0.3, 1.0 / 3, 5e-324, 2.2250738585072014e-308, 2.225073858507201e-308,
		math.MaxFloat64, math.SmallestNonzeroFloat64, math.Inf(1), math.Inf(-1), math.NaN(), 9007199254740993, 1e22, 1e23, 5e-324 * 3,
		123456789012345680, 4.35, 0.000001, 1e-7, 1e21, 1e-5, 8.41e21, 2.0 / 3}
	for e := -1074; e <= 1023; e += 7 {
		p := math.Ldexp(1, e)
		out = append(out, p, math.Nextafter(p, 0), math.Nextafter(p, math.Inf(1)))
	}
	return out
}

func dCodec(g *G) {
	vals := fmtValues(g, g.pick(3000, 100000))
	for _, v := range vals {
		g.emit(mkCodec(v), "codec")
	}
	for _, f := range floatBoundaries() {
		g.emit(mkSetFloat(f), "setfloat/boundary")
	}
	// the integer setters write into a destination that held -NaN with exponent 77 and a 9-digit coefficient (C06)
	for _, v := range int64Boundaries() {
		for _, fn := range []string{"SetInt64", "SetFinite", "ScanInt64"} {
			g.emit(mkSetInt(fn, v, g.R.between(-100, 100)), "setint/used-destination")
		}
	}
	for i := 0; i < g.pick(4000, 200000); i++ {
		var f float64
		switch g.R.Intn(4) {
		case 0:
			f = math.Float64frombits(g.R.Uint64())
		case 1:
			f = float64(g.R.Intn(100000)) / []float64{1, 10, 100, 1000, 8, 3}[g.R.Intn(6)]
		case 2:
			f = math.Float64frombits(g.R.Uint64() & 0x800fffffffffffff) // subnormals
		default:
			f = g.R.NormFloat64() * math.Pow(10, float64(g.R.between(-30, 30)))
		}
		g.emit(mkSetFloat(f), "setfloat/seeded")
	}
}
