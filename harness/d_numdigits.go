package main

import (
	"encoding/json"
	"fmt"
	"math/big"

	"github.com/cockroachdb/apd/v3"
)

// NDEv: apd.NumDigits on an integer given as sign + base-1000 limbs.
type NDEv struct {
	K     string `json:"k"` // "nd"
	Neg   bool   `json:"neg"`
	B     []int  `json:"b"`
	P10   int    `json:"p10"` // >= 0: the value is 10^p10 + dl (too long to spell out); b is empty then
	Dl    int    `json:"dl"`
	ND    int    `json:"nd"`
	Panic string `json:"panic"`
	Key   string `json:"key"`
}

func mkNDPow(neg bool, k, dl int) (ev NDEv) {
	ev = NDEv{K: "nd", Neg: neg, B: []int{}, P10: k, Dl: dl, Key: fmt.Sprintf("numdigits|%v10^%d%+d", map[bool]string{true: "-", false: ""}[neg], k, dl)}
	defer func() {
		if r := recover(); r != nil {
			ev.Panic = fmt.Sprint(r)
		}
	}()
	b := new(big.Int).Exp(big.NewInt(10), big.NewInt(int64(k)), nil)
	b.Add(b, big.NewInt(int64(dl)))
	if neg {
		b.Neg(b)
	}
	var z apd.BigInt
	z.SetMathBigInt(b)
	ev.ND = int(apd.NumDigits(&z))
	return ev
}

func mkND(neg bool, limbs []int) (ev NDEv) {
	ev = NDEv{K: "nd", Neg: neg, B: limbs, P10: -1}
	b := bigOfLimbs(limbs)
	if neg {
		b.Neg(b)
	}
	ev.Key = "numdigits|" + b.String()
	if len(ev.Key) > 120 {
		ev.Key = fmt.Sprintf("%s...(%d bits)", ev.Key[:100], b.BitLen())
	}
	defer func() {
		if r := recover(); r != nil {
			ev.Panic = fmt.Sprint(r)
		}
	}()
	var z apd.BigInt
	z.SetMathBigInt(b)
	ev.ND = int(apd.NumDigits(&z))
	return ev
}

func init() {
	reexec["nd"] = func(line []byte) interface{} {
		var ev NDEv
		if err := json.Unmarshal(line, &ev); err != nil {
			panic(err)
		}
		if ev.P10 >= 0 {
			return mkNDPow(ev.Neg, ev.P10, ev.Dl)
		}
		return mkND(ev.Neg, ev.B)
	}
	drivers["numdigits"] = func(g *G) {
		emit := func(b *big.Int) {
			for _, d := range []int64{-1, 0, 1} {
				v := new(big.Int).Add(b, big.NewInt(d))
				if v.Sign() < 0 {
					continue
				}
				g.emit(mkND(false, limbsOf(v)), "boundary")
				if v.Sign() > 0 {
					g.emit(mkND(true, limbsOf(v)), "boundary")
				}
			}
		}
		// every bit length 1..260 at 2^n, and every power of ten up to 10^80 (and sparse ones beyond)
		for n := 0; n <= 260; n++ {
			emit(new(big.Int).Lsh(big.NewInt(1), uint(n)))
		}
		ten := big.NewInt(10)
		p := big.NewInt(1)
		for k := 0; k <= 1300; k++ {
			if k <= 80 || k%37 == 0 {
				emit(p)
			}
			p = new(big.Int).Mul(p, ten)
		}
		// every decimal-digit boundary up to 10^12000 (40 000 bits), given symbolically
		for k := 1301; k <= g.pick(12000, 30000); k++ {
			if !g.thorough() && k%2 == 0 && k > 2000 && k%643 != 0 {
				continue
			}
			g.emit(mkNDPow(k%3 == 0, k, 0), "pow10")
			g.emit(mkNDPow(k%3 == 1, k, -1), "pow10")
		}
		n := g.pick(20000, 400000)
		for i := 0; i < n; i++ {
			var v *big.Int
			switch g.R.Intn(4) {
			case 0:
				v = g.R.digits(g.R.between(1, 45))
			case 1:
				v = g.R.digits(g.R.between(1, 1300))
			case 2:
				v = g.R.near2()
			default:
				v = new(big.Int).Rand(g.R.Rand, new(big.Int).Lsh(big.NewInt(1), uint(g.R.between(1, 4096))))
			}
			g.emit(mkND(g.R.bool(), limbsOf(v)), "seeded")
		}
	}
}
