package main

import (
	"bufio"
	"encoding/json"
	"math/big"
	"os"
	"path/filepath"
)

// The small boundary domain S is defined in spec/Gen_Domain.tla and exported
// by TLC; the harness only loads it.
func loadDecs(name string) []Dec {
	var out []Dec
	loadND(name, func(b []byte) {
		var d Dec
		if err := json.Unmarshal(b, &d); err != nil {
			panic(err)
		}
		if d.C == nil {
			d.C = []int{}
		}
		out = append(out, d)
	})
	return out
}

func loadCtxs(name string) []Ctx {
	var out []Ctx
	loadND(name, func(b []byte) {
		var c Ctx
		if err := json.Unmarshal(b, &c); err != nil {
			panic(err)
		}
		out = append(out, c)
	})
	return out
}

func loadND(name string, f func([]byte)) {
	dir := os.Getenv("VERIF_DOMAIN_DIR")
	if dir == "" {
		panic("VERIF_DOMAIN_DIR not set")
	}
	fh, err := os.Open(filepath.Join(dir, name))
	if err != nil {
		panic(err)
	}
	defer fh.Close()
	sc := bufio.NewScanner(fh)
	sc.Buffer(make([]byte, 1<<20), 1<<26)
	for sc.Scan() {
		if len(sc.Bytes()) > 0 {
			f(append([]byte(nil), sc.Bytes()...))
		}
	}
}

var modeNames = []string{"down", "half_up", "half_even", "ceiling", "floor", "half_down", "up", "05up"}

func finDec(neg bool, c *big.Int, e int) Dec {
	cs := 0
	if c.Sign() != 0 {
		cs = 1
	}
	return Dec{F: 0, N: neg, C: limbsOf(c), E: e, CS: cs}
}

// randL draws a finite decimal of the large seeded domain L for precision p:
// 1..(2p+5) digits, biased shapes, exponent in [-span, span].
func (r *Rand) randL(p, span int) Dec {
	n := r.between(1, 2*p+5)
	var c *big.Int
	switch r.Intn(12) {
	case 0:
		c = new(big.Int)
	case 1:
		c = r.near2()
	case 2:
		if r.bool() {
			c, _ = r.wordEdge(r.between(1, p+1))
		} else {
			c = r.digits(n)
		}
	default:
		c = r.digits(n)
	}
	e := r.between(-span, span)
	if r.Intn(4) == 0 {
		e = r.between(-3, 3)
	}
	d := finDec(r.bool(), c, e)
	d.Hp = r.Intn(8) == 0
	return d
}

var specialDecs = []Dec{
	{F: 1, N: false, C: []int{}}, {F: 1, N: true, C: []int{}},
	{F: 2, N: false, C: []int{}}, {F: 2, N: true, C: []int{}},
	{F: 3, N: false, C: []int{}}, {F: 3, N: true, C: []int{}},
}

// randCtxL draws a context of domain L: exponent range tight enough that
// sub-normal and overflowing results are frequent.
func (r *Rand) randCtxL(maxp int) Ctx {
	p := r.between(1, maxp)
	if r.Intn(3) == 0 {
		p = r.between(1, 9)
	}
	var emin, emax int
	switch r.Intn(4) {
	case 0:
		emin, emax = -r.between(0, 10), r.between(p, p+10)
	case 1:
		emin, emax = -r.between(0, 3*p+5), r.between(p, 3*p+5)
	case 2:
		emin, emax = -2000, 2000
	default:
		emin, emax = -100000, 100000
	}
	if emax < p {
		emax = p
	}
	m := ""
	if r.Intn(20) != 0 {
		m = modeNames[r.Intn(len(modeNames))]
	}
	return Ctx{P: p, Emax: emax, Emin: emin, R: m, T: 0}
}
