package main

import "github.com/cockroachdb/apd/v3"

// sharedState is the digest of the package-level tables and constants (verif hook).
func sharedState() string { return apd.VerifSharedState() }
