package main

import (
	"bufio"
	"encoding/json"
	"fmt"
	"math/big"
	"os"
	"path/filepath"
	"strings"

	"github.com/cockroachdb/apd/v3"
)

// TEv: text events (C13, C14, parts of C01/C04). Strings are byte sequences.
type TEv struct {
	K      string `json:"k"`  // "t"
	Tk     string `json:"tk"` // parse | ctxparse | text | format | rt
	Fn     string `json:"fn"`
	S      []int  `json:"s"`
	D      Dec    `json:"d"`
	Ctx    Ctx    `json:"ctx"`
	Verb   int    `json:"verb"`
	Flags  []int  `json:"flags"`
	Width  int    `json:"width"`
	Out    []int  `json:"out"`
	Ok     bool   `json:"ok"`
	NilRet bool   `json:"nilret"`
	Res    Dec    `json:"res"`
	Res2   Dec    `json:"res2"` // parse only: the same string parsed into a destination that held other contents
	Fl     int    `json:"fl"`
	Err    string `json:"err"`
	Panic  string `json:"panic"`
	Key    string `json:"key"`
}

func bytesOf(s string) []int {
	out := make([]int, len(s))
	for i := 0; i < len(s); i++ {
		out[i] = int(s[i])
	}
	return out
}

func strOf(b []int) string {
	bs := make([]byte, len(b))
	for i, v := range b {
		bs[i] = byte(v)
	}
	return string(bs)
}

func newT(tk, fn string) TEv {
	return TEv{K: "t", Tk: tk, Fn: fn, S: []int{}, D: none, Flags: []int{}, Out: []int{}, Res: none, Res2: none}
}

func short(s string) string {
	if len(s) > 80 {
		return fmt.Sprintf("%q...(%d bytes)", s[:60], len(s))
	}
	return fmt.Sprintf("%q", s)
}

func mkParse(fn, s string) (ev TEv) {
	ev = newT("parse", fn)
	ev.S = bytesOf(s)
	ev.Key = "parse|" + fn + "|" + short(s)
	defer func() {
		if r := recover(); r != nil {
			ev.Panic = fmt.Sprint(r)
		}
	}()
	var d *apd.Decimal
	var err error
	switch fn {
	case "SetString":
		var dst apd.Decimal
		var r *apd.Decimal
		r, _, err = dst.SetString(s)
		ev.NilRet = r == nil
		d = &dst
		if r != nil {
			d = r
		}
	case "NewFromString":
		d, _, err = apd.NewFromString(s)
		ev.NilRet = d == nil
	case "UnmarshalText":
		d = new(apd.Decimal)
		err = d.UnmarshalText([]byte(s))
		ev.NilRet = err != nil
	case "ScanString":
		d = new(apd.Decimal)
		err = d.Scan(s)
		ev.NilRet = err != nil
	case "ScanBytes":
		d = new(apd.Decimal)
		err = d.Scan([]byte(s))
		ev.NilRet = err != nil
	}
	ev.Ok = err == nil
	ev.Err = errStr(err)
	if len(ev.Err) > 60 {
		ev.Err = ev.Err[:60]
	}
	if ev.Ok && d != nil {
		ev.Res = encDec(d)
		// the same input into a destination with previous contents (C06)
		used := &apd.Decimal{Form: apd.NaNSignaling, Negative: !d.Negative, Exponent: 77}
		used.Coeff.SetInt64(123456789)
		var err2 error
		switch fn {
		case "SetString", "NewFromString":
			_, _, err2 = used.SetString(s)
		case "UnmarshalText":
			err2 = used.UnmarshalText([]byte(s))
		case "ScanString":
			err2 = used.Scan(s)
		case "ScanBytes":
			err2 = used.Scan([]byte(s))
		}
		if err2 == nil {
			ev.Res2 = encDec(used)
		}
	}
	return ev
}

func mkCtxParse(c Ctx, s string) (ev TEv) {
	ev = newT("ctxparse", "Context.SetString")
	ev.S = bytesOf(s)
	ev.Ctx = c
	ev.Key = "ctxparse|" + ctxStr(c) + "|" + short(s)
	defer func() {
		if r := recover(); r != nil {
			ev.Panic = fmt.Sprint(r)
		}
	}()
	var dst apd.Decimal
	if len(s)%2 == 1 { // a destination in use: negative, non-zero exponent, a coefficient wider than the inline array
		dst.Negative, dst.Exponent = true, -7
		dst.Coeff.SetString("987654321098765432109876543210987654321098765432109876543210", 10)
		if len(s)%4 == 3 {
			dst.Form = apd.NaNSignaling
		}
	}
	r, fl, err := decCtx(c).SetString(&dst, s)
	ev.NilRet = r == nil
	ev.Fl = int(fl)
	ev.Err = errStr(err)
	if len(ev.Err) > 60 {
		ev.Err = ev.Err[:60]
	}
	ev.Ok = r != nil
	if r != nil {
		ev.Res = encDec(r)
	}
	return ev
}

func ctxStr(c Ctx) string {
	return fmt.Sprintf("p%d,emin%d,emax%d,%s,t%d", c.P, c.Emin, c.Emax, c.R, c.T)
}

func decStr(d Dec) string {
	s := "+"
	if d.N {
		s = "-"
	}
	if d.F >= 1 && d.F <= 3 {
		name := s + []string{"", "Inf", "sNaN", "NaN"}[d.F]
		if len(d.C) > 0 || d.E != 0 {
			name += fmt.Sprintf("[stale %sE%d]", bigOfLimbs(d.C).String(), d.E)
		}
		return name
	}
	c := bigOfLimbs(d.C).String()
	if len(c) > 40 {
		c = fmt.Sprintf("%s..(%d digits)", c[:30], len(c))
	}
	hp := ""
	if d.Hp {
		hp = "(heap)"
	}
	return fmt.Sprintf("%s%sE%d%s", s, c, d.E, hp)
}

var textFns = []struct {
	fn   string
	verb byte
}{{"String", 'G'}, {"TextG", 'G'}, {"Textg", 'g'}, {"TextE", 'E'}, {"Texte", 'e'}, {"Textf", 'f'}, {"MarshalText", 'G'},
	{"Value", 'G'}, {"%v", 'G'}, {"%s", 'G'}, {"%G", 'G'}, {"%g", 'g'}, {"%E", 'E'}, {"%e", 'e'}, {"%f", 'f'}, {"%F", 'f'}}

func render(d *apd.Decimal, fn string) string {
	switch fn {
	case "String":
		return d.String()
	case "TextG":
		return d.Text('G')
	case "Textg":
		return d.Text('g')
	case "TextE":
		return d.Text('E')
	case "Texte":
		return d.Text('e')
	case "Textf":
		return d.Text('f')
	case "MarshalText":
		b, _ := d.MarshalText()
		return string(b)
	case "Value":
		v, _ := d.Value()
		return v.(string)
	default:
		return fmt.Sprintf(fn, d)
	}
}

// mkText records the text form and the decimal parsed back from it.
func mkText(dj Dec, i int) (ev TEv) {
	tf := textFns[i]
	ev = newT("text", tf.fn)
	ev.D = dj
	ev.Verb = int(tf.verb)
	ev.Key = "text|" + tf.fn + "|" + decStr(dj)
	defer func() {
		if r := recover(); r != nil {
			ev.Panic = fmt.Sprint(r)
		}
	}()
	d := decDec(dj)
	out := render(d, tf.fn)
	ev.Out = bytesOf(out)
	back, _, err := apd.NewFromString(out)
	ev.Ok = err == nil
	if err == nil {
		ev.Res = encDec(back)
	}
	return ev
}

func mkFormat(dj Dec, verb byte, flags string, width int) (ev TEv) {
	ev = newT("format", "Format")
	ev.D = dj
	ev.Verb = int(verb)
	ev.Flags = bytesOf(flags)
	ev.Width = width
	f := "%" + flags
	if width >= 0 {
		f += fmt.Sprint(width)
	}
	f += string(verb)
	ev.Key = "format|" + f + "|" + decStr(dj)
	defer func() {
		if r := recover(); r != nil {
			ev.Panic = fmt.Sprint(r)
		}
	}()
	ev.Out = bytesOf(fmt.Sprintf(f, decDec(dj)))
	return ev
}

func init() {
	reexec["t"] = func(line []byte) interface{} {
		var ev TEv
		if err := json.Unmarshal(line, &ev); err != nil {
			panic(err)
		}
		switch ev.Tk {
		case "parse":
			return mkParse(ev.Fn, strOf(ev.S))
		case "ctxparse":
			return mkCtxParse(ev.Ctx, strOf(ev.S))
		case "text":
			for i, tf := range textFns {
				if tf.fn == ev.Fn {
					return mkText(ev.D, i)
				}
			}
		case "format":
			return mkFormat(ev.D, byte(ev.Verb), strOf(ev.Flags), ev.Width)
		}
		panic("bad text event")
	}
	drivers["parse"] = dParse
	drivers["format"] = dFormat
	drivers["gentext"] = dGenText
	drivers["ctxparse"] = dCtxParse
}

var parseFns = []string{"SetString", "NewFromString", "UnmarshalText", "ScanString", "ScanBytes"}

// grammar sentences of the numeric-string grammar
func (r *Rand) sentence() string {
	var sb strings.Builder
	switch r.Intn(3) {
	case 0:
		sb.WriteByte('-')
	case 1:
		if r.bool() {
			sb.WriteByte('+')
		}
	}
	k := r.Intn(14)
	cased := func(s string) string {
		b := []byte(s)
		for i := range b {
			if r.Intn(3) == 0 {
				b[i] = byte(strings.ToUpper(string(b[i]))[0])
			}
		}
		return string(b)
	}
	switch {
	case k == 0:
		sb.WriteString(cased([]string{"inf", "infinity"}[r.Intn(2)]))
	case k == 1:
		sb.WriteString(cased([]string{"nan", "snan"}[r.Intn(2)]))
		if r.bool() {
			sb.WriteString(r.digits(r.between(1, 30)).String())
		}
	default:
		ip := r.Intn(4)
		fp := r.Intn(4)
		if ip == 0 && fp == 0 {
			ip = 1
		}
		digs := func(n int) string {
			s := ""
			for i := 0; i < n; i++ {
				s += string("0123456789"[r.Intn(10)])
			}
			return s
		}
		if r.Intn(6) == 0 {
			ip = r.between(5, 60)
		}
		sb.WriteString(digs(ip))
		if fp > 0 || r.Intn(4) == 0 {
			sb.WriteByte('.')
			sb.WriteString(digs(fp))
		}
		if r.bool() {
			sb.WriteByte("eE"[r.Intn(2)])
			switch r.Intn(3) {
			case 0:
				sb.WriteByte('-')
			case 1:
				sb.WriteByte('+')
			}
			switch r.Intn(8) {
			case 0:
				sb.WriteString(fmt.Sprint(r.between(99990, 100010)))
			case 1:
				sb.WriteString(fmt.Sprint(r.between(0, 3000000000)))
			case 2:
				sb.WriteString("000" + fmt.Sprint(r.Intn(100)))
			default:
				sb.WriteString(fmt.Sprint(r.Intn(400)))
			}
		}
	}
	return sb.String()
}

var mutChars = []string{"+", "-", ".", "e", "E", "_", " ", "\x00", "\xc4\xb0", "\xef\xbc\x90", "0", "5", "n", "a", "s", "i", "f", "x", "\xe2\x84\xaa"}

func (r *Rand) mutate(s string) string {
	c := mutChars[r.Intn(len(mutChars))]
	if len(s) == 0 {
		return c
	}
	i := r.Intn(len(s) + 1)
	switch r.Intn(3) {
	case 0: // insert
		return s[:i] + c + s[i:]
	case 1: // delete
		if i == len(s) {
			i--
		}
		return s[:i] + s[i+1:]
	default: // replace
		if i == len(s) {
			i--
		}
		return s[:i] + c + s[i+1:]
	}
}

func dParse(g *G) {
	alpha := []byte("019+-.eEinfasN _")
	// all strings up to length 4 (thorough: 5) over the 16-symbol alphabet
	maxLen := 4
	if g.thorough() {
		maxLen = 5
	}
	var rec func(prefix []byte)
	rec = func(prefix []byte) {
		g.emit(mkParse("SetString", string(prefix)), "enum")
		if len(prefix) == maxLen {
			return
		}
		for _, c := range alpha {
			rec(append(prefix, c))
		}
	}
	rec(nil)
	// a seeded sample one symbol longer
	for i := 0; i < g.pick(30000, 600000); i++ {
		b := make([]byte, maxLen+1+g.R.Intn(2))
		for j := range b {
			b[j] = alpha[g.R.Intn(len(alpha))]
		}
		g.emit(mkParse(parseFns[g.R.Intn(len(parseFns))], string(b)), "enum+")
	}
	// words of the grammar near the keywords
	for _, w := range []string{"inf", "infinity", "nan", "snan", "nansnan", "snannan", "infinit", "infinityy", "nan1", "snan01", "nan-1", "nan+1",
		"nan1.0", "nane1", "in", "na", "sna", "nan123456789012345678901234567890", "snan18446744073709551616", "nan18446744073709551615",
		"\xc4\xb0nf", "\xc4\xb0nfinity", "\xc4\xb1nf", "s\xc5\x84an", ".-5", "-.+5", "+.-5", ".+5", "1.-5", "1e+-5", "-+5", "+-5", "--5", "++5", "- 5", " 5", "5 ",
		"0x10", "0b1", "0o7", "1_000", "1e1_0", "1e0x1", "", ".", "-", "+", "e", "-.", ".e1", "1e", "1e+", "1.e1", ".1e1", "1..1", "1.1.1", "1e1e1", "1e1.5",
		"\xef\xbc\x91", "\xd9\xa1\xd9\xa2", "1\x00", "\x001"} {
		for _, sg := range []string{"", "-", "+"} {
			for _, fn := range parseFns {
				g.emit(mkParse(fn, sg+w), "words")
			}
		}
	}
	for i := 0; i < g.pick(50000, 1500000); i++ {
		s := g.R.sentence()
		fn := parseFns[g.R.Intn(len(parseFns))]
		g.emit(mkParse(fn, s), "sentence")
		g.emit(mkParse(fn, g.R.mutate(s)), "mutant")
		if i%4 == 0 {
			g.emit(mkParse(fn, g.R.mutate(g.R.mutate(s))), "mutant2")
		}
	}
	// limits: exponents and adjusted exponents around +-100000
	for i := 0; i < g.pick(300, 3000); i++ {
		nd := g.R.between(1, 12)
		c := g.R.digits(nd).String()
		fp := g.R.Intn(nd + 1)
		e := []int{100000, -100000}[g.R.Intn(2)] + g.R.between(-14, 14)
		s := c[:nd-fp]
		if fp > 0 {
			s += "." + c[nd-fp:]
		}
		s += fmt.Sprintf("e%d", e)
		g.emit(mkParse(parseFns[g.R.Intn(len(parseFns))], s), "limits")
	}
	// random bytes
	for i := 0; i < g.pick(20000, 400000); i++ {
		b := make([]byte, g.R.between(0, 12))
		for j := range b {
			if g.R.Intn(3) == 0 {
				b[j] = byte(g.R.Intn(256))
			} else {
				b[j] = "0123456789+-.eEnNaAsSiIfFtTyY"[g.R.Intn(29)]
			}
		}
		g.emit(mkParse(parseFns[g.R.Intn(len(parseFns))], string(b)), "bytes")
	}
}

// fmtValues: decimals for formatting / round trips
func fmtValues(g *G, n int) []Dec {
	vs := loadDecs("domainS.ndjson")
	out := append([]Dec{}, vs...)
	for _, neg := range []bool{false, true} {
		for _, e := range []int{-2003, -2001, -2000, -1999, -7, -6, -1, 0, 1, 3, 100000, -100000} {
			out = append(out, finDec(neg, bigInt(0), e))
		}
		// around the scientific / plain switch-over
		for _, c := range []int64{1, 12, 123, 1234567, 99999999} {
			nd := len(fmt.Sprint(c))
			for adj := -8; adj <= -5; adj++ {
				out = append(out, finDec(neg, bigInt(c), adj-nd+1))
			}
			for _, e := range []int{-1, 0, 1, 2} {
				out = append(out, finDec(neg, bigInt(c), e))
			}
			out = append(out, finDec(neg, bigInt(c), 100000-nd+1), finDec(neg, bigInt(c), -100000))
		}
	}
	for i := 0; i < n; i++ {
		nd := g.R.between(1, 120)
		if g.R.Intn(3) == 0 {
			nd = g.R.between(1, 20)
		}
		var c *big.Int
		if g.R.Intn(10) == 0 {
			c = g.R.near2()
		} else {
			c = g.R.digits(nd)
		}
		e := g.R.between(-nd-10, 10)
		if g.R.Intn(4) == 0 {
			e = g.R.between(-3000, 3000)
		}
		d := finDec(g.R.bool(), c, e)
		d.Hp = g.R.Intn(8) == 0
		out = append(out, d)
	}
	// the boundary values again with a coefficient that lives in heap-backed storage (a BigInt that was once
	// wider than 128 bits and shrank in place)
	for _, v := range out[len(vs) : len(vs)+2*(12+5*10)] {
		v.Hp = true
		out = append(out, v)
	}
	return out
}

func dFormat(g *G) {
	vals := fmtValues(g, g.pick(3000, 100000))
	for _, v := range vals {
		for i := range textFns {
			if v.F == 0 && (v.E > 3000 || v.E < -3000) && textFns[i].verb == 'f' {
				continue // 'f' writes |exponent| zeros
			}
			g.emit(mkText(v, i), "text")
		}
	}
	flagSets := []string{"", "+", " ", "-", "0", "+-", "+0", " -", " 0", "-0", "+-0", " -0", "+ ", "+ 0"}
	widths := []int{-1, 0, 1, 10, 40}
	verbs := []byte("vsGgEefF")
	n := g.pick(40000, 800000)
	for i := 0; i < n; i++ {
		v := vals[g.R.Intn(len(vals))]
		if v.F == 0 && (v.E > 3000 || v.E < -3000) {
			continue
		}
		g.emit(mkFormat(v, verbs[g.R.Intn(len(verbs))], flagSets[g.R.Intn(len(flagSets))], widths[g.R.Intn(len(widths))]), "format")
	}
}

func dCtxParse(g *G) {
	cs := loadCtxs("ctxS.ndjson")
	n := g.pick(40000, 1000000)
	for i := 0; i < n; i++ {
		c := cs[g.R.Intn(len(cs))]
		if g.R.bool() {
			c = g.R.randCtxL(30)
		}
		s := g.R.sentence()
		if g.R.Intn(3) == 0 {
			// a number that needs rounding in c
			x := g.R.randL(c.P, 12)
			s = decDec(x).Text("GgEef"[g.R.Intn(5)])
		}
		if g.R.Intn(10) == 0 {
			s = g.R.mutate(s)
		}
		g.emit(mkCtxParse(c, s), "ctxparse")
	}
}

// NonTrivial: a parse event whose string is not trivially rejected at the first byte, or any formatting event.
func (e TEv) NonTrivial() bool { return e.Tk != "parse" || e.Ok || len(e.S) > 1 }

// gentext: the strings TLC generated by walking the grammar automaton (Gen_Text.tla -> VERIF_DOMAIN_DIR/textS.ndjson),
// each fed to every parsing entry point.
func dGenText(g *G) {
	f, err := os.Open(filepath.Join(os.Getenv("VERIF_DOMAIN_DIR"), "textS.ndjson"))
	if err != nil {
		panic(err)
	}
	defer f.Close()
	sc := bufio.NewScanner(f)
	sc.Buffer(make([]byte, 1<<16), 1<<20)
	i := 0
	for sc.Scan() {
		var cps []int
		if err := json.Unmarshal(sc.Bytes(), &cps); err != nil {
			panic(err)
		}
		b := make([]byte, len(cps))
		for j, c := range cps {
			b[j] = byte(c)
		}
		s := string(b)
		g.emit(mkParse(parseFns[i%len(parseFns)], s), "gentext")
		if i%3 == 0 {
			g.emit(mkParse(parseFns[(i/3+1)%len(parseFns)], s), "gentext")
		}
		i++
	}
}
