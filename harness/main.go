// Command harness executes calls on the real cockroachdb/apd code (built from
// /repo's working tree) and records what it observes as ndjson events. It
// contains no expected values: every event is judged by the TLA+ specification
// (spec/Trace.tla) evaluated by TLC.
//
//	harness drive <driver> <tier> <seed> <outdir> <nshards>   generate cases, execute, record
//	harness exec  < events.ndjson > events.ndjson              re-execute the cases of recorded events (replay)
//	harness list                                               list drivers
package main

import (
	"bufio"
	"encoding/json"
	"fmt"
	"hash/fnv"
	"os"
	"path/filepath"
	"sort"
	"strconv"
)

type driver func(g *G)

var drivers = map[string]driver{}

// G is the generation context handed to a driver.
type G struct {
	Tier       string
	Seed       int64
	R          *Rand
	ws         []*bufio.Writer
	fs         []*os.File
	cnt        int
	Counts     map[string]int
	seen       map[uint64]struct{} // hashes of the recorded events (distinctness is measured, not assumed)
	nontrivial int                 // distinct events that are non-trivial by the family's rule
}

// nonTrivialer is implemented by event types with a notion of a trivial case.
type nonTrivialer interface{ NonTrivial() bool }

func (g *G) thorough() bool { return g.Tier == "thorough" }

// pick returns q in the quick tier and t in the thorough tier, scaled by VERIF_SCALE (percent).
func (g *G) pick(q, t int) int {
	n := q
	if g.thorough() {
		n = t
	}
	if s := os.Getenv("VERIF_SCALE"); s != "" {
		if p, err := strconv.Atoi(s); err == nil && p > 0 {
			n = n * p / 100
		}
	}
	if n < 1 {
		n = 1
	}
	return n
}

func (g *G) emit(ev interface{}, class string) {
	b, err := json.Marshal(ev)
	if err != nil {
		panic(err)
	}
	h := fnv.New64a()
	h.Write(b)
	if _, dup := g.seen[h.Sum64()]; !dup {
		g.seen[h.Sum64()] = struct{}{}
		if nt, ok := ev.(nonTrivialer); !ok || nt.NonTrivial() {
			g.nontrivial++
		}
	}
	w := g.ws[g.cnt%len(g.ws)]
	w.Write(b)
	w.WriteByte('\n')
	g.cnt++
	g.Counts[class]++
}

func main() {
	if len(os.Args) < 2 {
		fmt.Fprintln(os.Stderr, "usage: harness drive|exec|list ...")
		os.Exit(2)
	}
	switch os.Args[1] {
	case "list":
		var names []string
		for n := range drivers {
			names = append(names, n)
		}
		sort.Strings(names)
		for _, n := range names {
			fmt.Println(n)
		}
	case "drive":
		if len(os.Args) != 7 {
			fmt.Fprintln(os.Stderr, "usage: harness drive <driver> <tier> <seed> <outdir> <nshards>")
			os.Exit(2)
		}
		d, ok := drivers[os.Args[2]]
		if !ok {
			fmt.Fprintln(os.Stderr, "unknown driver", os.Args[2])
			os.Exit(2)
		}
		seed, _ := strconv.ParseInt(os.Args[4], 10, 64)
		ns, _ := strconv.Atoi(os.Args[6])
		g := &G{Tier: os.Args[3], Seed: seed, R: NewRand(seed), Counts: map[string]int{}, seen: map[uint64]struct{}{}}
		for i := 0; i < ns; i++ {
			dir := filepath.Join(os.Args[5], fmt.Sprintf("shard%02d", i))
			if err := os.MkdirAll(dir, 0o755); err != nil {
				panic(err)
			}
			f, err := os.OpenFile(filepath.Join(dir, "trace.ndjson"), os.O_CREATE|os.O_WRONLY|os.O_APPEND, 0o644)
			if err != nil {
				panic(err)
			}
			g.fs = append(g.fs, f)
			g.ws = append(g.ws, bufio.NewWriterSize(f, 1<<20))
		}
		before := sharedState()
		d(g)
		g.emit(map[string]interface{}{"k": "sh", "before": before, "after": sharedState(), "key": "shared-state|" + os.Args[2]}, "shared-state")
		for i := range g.ws {
			g.ws[i].Flush()
			g.fs[i].Close()
		}
		out, _ := json.Marshal(map[string]interface{}{"driver": os.Args[2], "events": g.cnt, "classes": g.Counts,
			"distinct": len(g.seen), "distinct_nontrivial": g.nontrivial})
		fmt.Println(string(out))
	case "exec":
		execMain()
	default:
		fmt.Fprintln(os.Stderr, "unknown command", os.Args[1])
		os.Exit(2)
	}
}

// execMain re-executes recorded events: each input line is an event whose case
// fields (everything but the observed outcome) are executed again on the code
// as built now; the fresh event is written to stdout.
func execMain() {
	sc := bufio.NewScanner(os.Stdin)
	sc.Buffer(make([]byte, 1<<20), 1<<28)
	w := bufio.NewWriter(os.Stdout)
	defer w.Flush()
	for sc.Scan() {
		line := sc.Bytes()
		if len(line) == 0 {
			continue
		}
		var head struct {
			K string `json:"k"`
		}
		if err := json.Unmarshal(line, &head); err != nil {
			fmt.Fprintln(os.Stderr, "bad event:", err)
			os.Exit(2)
		}
		re, ok := reexec[head.K]
		if !ok {
			fmt.Fprintln(os.Stderr, "no re-executor for family", head.K)
			os.Exit(2)
		}
		out := re(line)
		b, _ := json.Marshal(out)
		w.Write(b)
		w.WriteByte('\n')
	}
}

// reexec maps an event family to its re-executor.
var reexec = map[string]func(line []byte) interface{}{}
