package main

import (
	"encoding/json"
)

// GEv is a group of executions of one case that the relational trace spec
// (spec/TraceRel.tla) compares with each other.
type GEv struct {
	K    string  `json:"k"`  // "g"
	Gk   string  `json:"gk"` // modes | mono | swap | subneg | mirror | scale | traps | alias | pre
	Op   string  `json:"op"`
	Ctx  Ctx     `json:"ctx"`
	Kk   int     `json:"kk"` // scale: power of ten applied
	Key  string  `json:"key"`
	Runs []RunEv `json:"runs"`
}

// RunEv is one member: a complete, re-executable call plus a tag.
type RunEv struct {
	Tag string `json:"tag"`
	AEv
}

func run(tag, op string, c Ctx, x, y Dec, q int, al string, pre Dec) RunEv {
	return RunEv{Tag: tag, AEv: mkA(op, c, x, y, q, al, pre)}
}

func withMode(c Ctx, m string) Ctx { c.R = m; return c }
func withTraps(c Ctx, t int) Ctx   { c.T = t; return c }
func negDec(d Dec) Dec             { d.N = !d.N; return d }
func scaleDec(d Dec, k int) Dec    { d.E += k; return d }

func caseKey(gk, op string, c Ctx, x, y Dec, q int) string {
	b, _ := json.Marshal([]interface{}{gk, op, c, x.F, x.N, x.C, x.E, y.F, y.N, y.C, y.E, q})
	return string(b)
}

// gModes: the same call under the default and the eight rounding modes. One group in four is run in place
// (destination = first or second operand, the same for all nine runs).
func gModes(op string, c Ctx, x, y Dec, q int) GEv {
	al := ""
	modeAliasCtr++
	if modeAliasCtr%4 == 0 {
		al = "dx"
		if binOps[op] && modeAliasCtr%8 == 0 {
			al = "dy"
		}
	}
	g := GEv{K: "g", Gk: "modes", Op: op, Ctx: c, Key: caseKey("modes"+al, op, withMode(c, ""), x, y, q)}
	for _, m := range append([]string{""}, modeNames...) {
		g.Runs = append(g.Runs, run(m, op, withMode(c, m), x, y, q, al, fresh))
	}
	return g
}

var modeAliasCtr = 0

var mirrorMode = map[string]string{"floor": "ceiling", "ceiling": "floor"}

func gPair(gk, op string, c Ctx, x, y Dec, q, k int) GEv {
	g := GEv{K: "g", Gk: gk, Op: op, Ctx: c, Kk: k, Key: caseKey(gk, op, c, x, y, q+1000*k)}
	g.Runs = append(g.Runs, run("a", op, c, x, y, q, "", fresh))
	switch gk {
	case "swap":
		g.Runs = append(g.Runs, run("b", op, c, y, x, q, "", fresh))
	case "subneg": // Sub(x,y) vs Add(x,-y)
		g.Runs = append(g.Runs, run("b", "add", c, x, negDec(y), q, "", fresh))
	case "mirror":
		c2 := c
		if m, ok := mirrorMode[c.R]; ok {
			c2.R = m
		}
		switch op {
		case "add", "sub":
			g.Runs = append(g.Runs, run("b", op, c2, negDec(x), negDec(y), q, "", fresh))
		default: // mul, quo: negate the first operand; unary: negate the operand
			g.Runs = append(g.Runs, run("b", op, c2, negDec(x), y, q, "", fresh))
		}
	case "scale":
		switch op {
		case "add", "sub", "rem":
			g.Runs = append(g.Runs, run("b", op, c, scaleDec(x, k), scaleDec(y, k), q, "", fresh))
		case "mul", "quo":
			if k%2 == 0 {
				g.Runs = append(g.Runs, run("b", op, c, scaleDec(x, k), y, q, "", fresh))
			} else if op == "mul" {
				g.Runs = append(g.Runs, run("b", op, c, x, scaleDec(y, k), q, "", fresh))
			} else {
				// dividing by y*10^-k scales the quotient by 10^k
				g.Runs = append(g.Runs, run("b", op, c, x, scaleDec(y, -k), q, "", fresh))
			}
		}
	}
	return g
}

func init() {
	reexec["g"] = func(line []byte) interface{} {
		var ev GEv
		if err := json.Unmarshal(line, &ev); err != nil {
			panic(err)
		}
		for i, r := range ev.Runs {
			ev.Runs[i] = run(r.Tag, r.Op, r.Ctx, r.X, r.Y, r.Q, r.Al, r.Pre)
		}
		return ev
	}
	drivers["modes"] = dModes
	drivers["rel"] = dRel
}

var modeOpsBin = []string{"add", "sub", "mul", "quo"}
var modeOpsUn = []string{"round", "quantize", "tointx"}

// dModes: the same call under the eight rounding modes (and the default), on
// a seeded cut of S and on L.
func dModes(g *G) {
	vs := loadDecs("domainS.ndjson")
	fin := vs[:0:0]
	for _, v := range vs {
		if v.F == 0 {
			fin = append(fin, v)
		}
	}
	type rg struct{ p, emin, emax int }
	var base []Ctx
	for _, p := range []int{1, 2, 3} {
		for _, r := range []rg{{p, -2, 3}, {p, 0, 3}, {p, -100, 100}} {
			base = append(base, Ctx{P: r.p, Emin: r.emin, Emax: r.emax})
		}
	}
	// unary: all finite S values x contexts
	for _, c := range base {
		for _, x := range fin {
			g.emit(gModes("round", c, x, x, 0), "modes/round")
			g.emit(gModes("tointx", c, x, x, 0), "modes/tointx")
			for _, q := range []int{-3, -1, 0, 1, 3} {
				if !g.thorough() && g.R.Intn(2) == 0 {
					continue
				}
				g.emit(gModes("quantize", c, x, x, q), "modes/quantize")
			}
		}
	}
	total := len(fin) * len(fin) * len(base)
	walk(g.R, total, g.pick(6000, 100000), func(i int) {
		c := base[i%len(base)]
		x := fin[(i/len(base))%len(fin)]
		y := fin[i/(len(base)*len(fin))]
		for _, op := range modeOpsBin {
			g.emit(gModes(op, c, x, y, 0), "modes/"+op)
		}
	})
	n := g.pick(2500, 30000)
	for i := 0; i < n; i++ {
		c := g.R.randCtxL(30)
		span := 25
		x, y := g.R.randL(c.P, span), g.R.randL(c.P, span)
		if g.R.Intn(3) == 0 {
			y.E = x.E + g.R.between(-c.P-2, c.P+2)
		}
		if g.R.Intn(10) == 0 { // more than 128 discarded digits
			k := g.R.between(129, 180)
			x = finDec(x.N, g.R.digits(c.P+k), x.E-k)
		}
		if g.R.Intn(5) == 0 {
			x.E = c.Emin - g.R.between(0, c.P+3)
			if c.Emin < -50000 {
				x.E = g.R.between(-40, 40)
			}
			y.E = x.E + g.R.between(-2, 2)
		}
		for _, op := range modeOpsBin {
			g.emit(gModes(op, c, x, y, 0), "modes/"+op)
		}
		g.emit(gModes("round", c, x, x, 0), "modes/round")
		g.emit(gModes("quantize", c, x, x, x.E+g.R.between(-3, c.P+3)), "modes/quantize")
		g.emit(gModes("tointx", c, x, x, 0), "modes/tointx")
	}
}

// dRel: transformed operand sets (swap, Sub = Add of the negation, mirrored
// negation, power-of-ten scaling) and monotonicity of Round.
func dRel(g *G) {
	vs := loadDecs("domainS.ndjson")
	cs := loadCtxs("ctxS.ndjson")
	fin := vs[:0:0]
	for _, v := range vs {
		if v.F == 0 {
			fin = append(fin, v)
		}
	}
	pairs := func(n int, f func(c Ctx, x, y Dec)) {
		total := len(fin) * len(fin) * len(cs)
		walk(g.R, total, n, func(i int) {
			f(cs[i%len(cs)], fin[(i/len(cs))%len(fin)], fin[i/(len(cs)*len(fin))])
		})
		m := n / 4
		for i := 0; i < m; i++ {
			c := g.R.randCtxL(30)
			x, y := g.R.randL(c.P, 25), g.R.randL(c.P, 25)
			if g.R.Intn(3) == 0 {
				y.E = x.E + g.R.between(-c.P-2, c.P+2)
			}
			if g.R.Intn(6) == 0 { // one operand negligible or zero, more than 128 orders of magnitude away (beyond the power-of-ten table)
				gap := g.R.between(126, 400)
				if g.R.bool() {
					gap = -gap
				}
				y.E = x.E + gap
				if g.R.bool() {
					y = finDec(y.N, bigInt(0), y.E)
				}
				if g.R.bool() {
					x, y = y, x
				}
			}
			f(c, x, y)
		}
	}
	pairs(g.pick(12000, 120000), func(c Ctx, x, y Dec) {
		g.emit(gPair("swap", "add", c, x, y, 0, 0), "swap/add")
		g.emit(gPair("swap", "mul", c, x, y, 0, 0), "swap/mul")
		g.emit(gPair("subneg", "sub", c, x, y, 0, 0), "subneg")
		for _, op := range []string{"add", "sub", "mul", "quo", "round"} {
			g.emit(gPair("mirror", op, c, x, y, 0, 0), "mirror/"+op)
		}
		k := g.R.between(-4, 4)
		if k == 0 {
			k = 5
		}
		wide := c
		if g.R.bool() {
			wide.Emin, wide.Emax = -100000, 100000 // both computations must stay in the normal range
		} // else: the case's own tight range; the spec compares only pairs whose results are both normal
		for _, op := range []string{"add", "sub", "mul", "quo", "rem"} {
			g.emit(gPair("scale", op, wide, x, y, 0, k), "scale/"+op)
		}
	})
	// monotonicity of Round: ascending lists
	n := g.pick(1500, 20000)
	for i := 0; i < n; i++ {
		c := cs[g.R.Intn(len(cs))]
		if g.R.bool() {
			c = g.R.randCtxL(20)
		}
		base := g.R.randL(c.P, 6)
		b := bigOfLimbs(base.C)
		if g.R.Intn(3) == 0 && c.P > 0 { // the discarded block crosses a machine-word / half-way boundary inside the list
			b, _ = g.R.wordEdge(c.P)
			b.Sub(b, bigInt(int64(g.R.between(0, 4))))
			base.Hp = false
		}
		ev := GEv{K: "g", Gk: "mono", Op: "round", Ctx: c}
		neg := base.N
		var xs []Dec
		if g.R.Intn(8) == 0 && c.P > 0 { // more than 128 digits are discarded (beyond the power-of-ten table)
			k := g.R.between(129, 200)
			b = new(bigIntT).Mul(b, new(bigIntT).Exp(bigInt(10), bigInt(int64(k)), nil))
			if g.R.bool() {
				b.Add(b, g.R.digits(k-1))
			}
			base.E -= k
		}
		reform := g.R.Intn(3) == 0 // the same ascending values in differing representations (trailing zeros, extra low digits)
		for j := 0; j < 8; j++ {
			xj := finDec(neg, b, base.E)
			if reform {
				z := g.R.between(0, 3)
				if g.R.Intn(4) == 0 { // one element alone carries more than 128 further digits
					z = g.R.between(129, 140)
				}
				bb := new(bigIntT).Mul(b, new(bigIntT).Exp(bigInt(10), bigInt(int64(z)), nil))
				if z > 0 && g.R.bool() {
					bb.Add(bb, bigInt(int64(g.R.between(0, 9)))) // still below the next element, which is at least b+1
				}
				xj = finDec(neg, bb, base.E-z)
			}
			xs = append(xs, xj)
			step := g.R.between(0, 3)
			if reform && step == 0 {
				step = 1
			}
			b = new(bigIntT).Add(b, bigInt(int64(step)))
		}
		if neg { // ascending order of negative numbers: decreasing magnitude
			for l, r := 0, len(xs)-1; l < r; l, r = l+1, r-1 {
				xs[l], xs[r] = xs[r], xs[l]
			}
		}
		ev.Key = caseKey("mono", "round", c, xs[0], xs[len(xs)-1], 0)
		for j, x := range xs {
			ev.Runs = append(ev.Runs, run(string(rune('0'+j)), "round", c, x, x, 0, "", fresh))
		}
		g.emit(ev, "mono")
	}
}

// ---------------------------------------------------------------------------
// C03 traps / C05 alias / C06 destination pre-state groups

var allOps = []string{"add", "sub", "mul", "quo", "quoint", "rem", "cmp", "pow", "abs", "neg", "round", "quantize",
	"tointx", "tointv", "ceil", "floor", "reduce", "sqrt", "cbrt", "exp", "ln", "log10", "dneg", "dabs", "dset", "dreduce"}

func gTraps(op string, c Ctx, x, y Dec, q int, sets []int) GEv {
	g := GEv{K: "g", Gk: "traps", Op: op, Ctx: c, Key: caseKey("traps", op, withTraps(c, 0), x, y, q)}
	g.Runs = append(g.Runs, run("0", op, withTraps(c, 0), x, y, q, "", fresh))
	for _, t := range sets {
		g.Runs = append(g.Runs, run("t", op, withTraps(c, t), x, y, q, "", fresh))
	}
	return g
}

func gAlias(op string, c Ctx, x, y Dec, q int) GEv {
	g := GEv{K: "g", Gk: "alias", Op: op, Ctx: c, Key: caseKey("alias", op, c, x, y, q)}
	pats := []string{"", "dx"}
	if binOps[op] {
		pats = append(pats, "dy")
		if x.F == y.F && x.N == y.N && x.E == y.E && eqLimbs(x.C, y.C) {
			pats = append(pats, "xy", "dxy")
		}
	}
	for _, al := range pats {
		g.Runs = append(g.Runs, run(al, op, c, x, y, q, al, fresh))
	}
	return g
}

func eqLimbs(a, b []int) bool {
	if len(a) != len(b) {
		return false
	}
	for i := range a {
		if a[i] != b[i] {
			return false
		}
	}
	return true
}

// destination pre-states of C06: fresh, NaN, -Inf, sNaN, a huge heap-backed
// coefficient with exponent -99999, a negative zero with a large exponent
func preStates() []Dec {
	huge := new(bigIntT).Lsh(bigInt(1), 300)
	huge.Sub(huge, bigInt(1))
	return []Dec{
		fresh,
		{F: 3, N: false, C: []int{}},
		{F: 1, N: true, C: []int{}},
		{F: 2, N: true, C: []int{}},
		finDec(true, huge, -99999),
		finDec(true, bigInt(0), 4000),
		finDec(false, bigInt(7), 12),
	}
}

func gPre(op string, c Ctx, x, y Dec, q int) GEv {
	g := GEv{K: "g", Gk: "pre", Op: op, Ctx: c, Key: caseKey("pre", op, c, x, y, q)}
	for i, p := range preStates() {
		g.Runs = append(g.Runs, run(string(rune('0'+i)), op, c, x, y, q, "", p))
	}
	return g
}

// relValues: operands for the relational groups: S values plus L values with
// heap-backed coefficients; composite functions get small arguments.
func relCases(g *G, n int, f func(op string, c Ctx, x, y Dec, q int)) {
	vs := loadDecs("domainSq.ndjson")
	cs := loadCtxs("ctxS.ndjson")
	for i := 0; i < n; i++ {
		var c Ctx
		var x, y Dec
		if i%3 != 0 {
			c = cs[g.R.Intn(len(cs))]
			x, y = vs[g.R.Intn(len(vs))], vs[g.R.Intn(len(vs))]
		} else {
			c = g.R.randCtxL(25)
			x, y = g.R.randL(c.P, 12), g.R.randL(c.P, 12)
			if g.R.Intn(3) == 0 {
				y.E = x.E + g.R.between(-c.P-2, c.P+2)
			}
		}
		if g.R.Intn(6) == 0 {
			y = x
		}
		if g.R.Intn(25) == 0 {
			ds := dirtySpecials()
			x = ds[g.R.Intn(len(ds))]
		}
		if g.R.Intn(6) == 0 { // small values in heap-backed storage
			x.Hp = true
		}
		if g.R.Intn(6) == 0 {
			y.Hp = true
		}
		op := allOps[g.R.Intn(len(allOps))]
		switch op {
		case "exp", "ln", "log10", "pow", "sqrt", "cbrt":
			// keep the iterative functions cheap: moderate precision and magnitudes
			if c.P > 12 {
				c.P = 12
			}
			if c.Emax < c.P {
				c.Emax = c.P
			}
			if x.F == 0 && (x.E > 3 || x.E < -12) {
				x.E = g.R.between(-6, 2)
			}
			if y.F == 0 && (y.E > 1 || y.E < -6) {
				y.E = g.R.between(-3, 1)
			}
			if len(x.C) > 5 {
				x.C = x.C[len(x.C)-5:]
			}
			if len(y.C) > 2 {
				y.C = y.C[len(y.C)-2:]
			}
		}
		q := 0
		if op == "quantize" {
			q = x.E + g.R.between(-3, c.P+3)
		}
		f(op, c, x, y, q)
	}
}

func init() {
	drivers["traps"] = func(g *G) {
		singles := []int{}
		for b := 0; b < 12; b++ {
			singles = append(singles, 1<<b, 4095^(1<<b))
		}
		relCases(g, g.pick(9000, 40000), func(op string, c Ctx, x, y Dec, q int) {
			var sets []int
			if g.thorough() && g.R.Intn(20) == 0 {
				for t := 1; t < 4096; t++ {
					sets = append(sets, t)
				}
			} else {
				sets = append(sets, singles...)
				sets = append(sets, 0x7af, 4095)
				for k := 0; k < 6; k++ {
					sets = append(sets, g.R.Intn(4096))
				}
			}
			g.emit(gTraps(op, c, x, y, q, sets), "traps/"+op)
		})
	}
	drivers["alias"] = func(g *G) {
		relCases(g, g.pick(60000, 1500000), func(op string, c Ctx, x, y Dec, q int) {
			g.emit(gAlias(op, c, x, y, q), "alias/"+op)
		})
	}
	drivers["pre"] = func(g *G) {
		relCases(g, g.pick(40000, 1000000), func(op string, c Ctx, x, y Dec, q int) {
			g.emit(gPre(op, c, x, y, q), "pre/"+op)
		})
	}
}

// SAOEv binds the exported Rounder.ShouldAddOne to the spec's rounding kernel Inc:
// every mode x sign x half x last digit x a one-limb, two-limb and heap coefficient.
type SAOEv struct {
	K    string `json:"k"` // "sao"
	Mode string `json:"mode"`
	Neg  bool   `json:"neg"`
	Half int    `json:"half"`
	C    []int  `json:"c"`
	Ret  bool   `json:"ret"`
	Key  string `json:"key"`
}

func init() {
	drivers["shouldaddone"] = func(g *G) {
		bases := []string{"", "12345678", "9999999999999999999999", "340282366920938463463374607431768211456123"}
		for _, m := range append([]string{"", "unknown_mode"}, modeNames...) {
			for _, neg := range []bool{false, true} {
				for _, half := range []int{-1, 0, 1} {
					for _, b := range bases {
						for dgt := 0; dgt <= 9; dgt++ {
							v, _ := new(bigIntT).SetString(b+string(rune('0'+dgt)), 10)
							var z apdBigInt
							z.SetMathBigInt(v)
							ret := apdRounder(m).ShouldAddOne(&z, neg, half)
							g.emit(SAOEv{K: "sao", Mode: m, Neg: neg, Half: half, C: limbsOf(v), Ret: ret,
								Key: "shouldaddone|" + m + "|" + v.String()}, "shouldaddone")
						}
					}
				}
			}
		}
	}
}
