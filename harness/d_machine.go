package main

import (
	"encoding/json"
	"fmt"

	"github.com/cockroachdb/apd/v3"
)

// MStep: one operation on the register file, with the reference outcome of the
// same Context operation on clones of the operand values (fresh destination,
// fresh Context value).
type MStep struct {
	Op   string `json:"op"`
	D    int    `json:"d"`
	X    int    `json:"x"`
	Y    int    `json:"y"`
	Q    int    `json:"q"`
	Post []Dec  `json:"post"` // all registers after the step
	Fl   int    `json:"fl"`   // ctx mode: returned Condition
	Err  string `json:"err"`
	Cnt  int    `json:"cnt"`
	EdFl int    `json:"edfl"`  // ed mode: ErrDecimal.Flags after the step
	EdEr bool   `json:"ederr"` // ed mode: ErrDecimal.Err() != nil after the step
	Ref  AOut   `json:"ref"`
	CtxA Ctx    `json:"ctxa"`
	Sh   bool   `json:"sh"` // shared package state unchanged by this step
	Panic string `json:"panic"`
}

// MHEv: a history on three Decimal registers through a Context ("ctx") or an ErrDecimal ("ed").
type MHEv struct {
	K     string  `json:"k"` // "mh"
	Mode  string  `json:"mode"`
	Ctx   Ctx     `json:"ctx"`
	Init  []Dec   `json:"init"`
	Steps []MStep `json:"steps"`
	Key   string  `json:"key"`
}

var edOps = []string{"abs", "add", "ceil", "exp", "floor", "ln", "log10", "mul", "neg", "pow", "quantize", "quo", "quoint",
	"reduce", "rem", "round", "sqrt", "sub", "tointv", "tointx"}

var machineOps = []string{"add", "sub", "mul", "quo", "quoint", "rem", "cmp", "abs", "neg", "round", "quantize", "tointx", "tointv",
	"ceil", "floor", "reduce", "sqrt", "cbrt", "dneg", "dabs", "dset", "dreduce"}
var edMachineOps = []string{"abs", "add", "ceil", "floor", "mul", "neg", "quantize", "quo", "quoint", "reduce", "rem", "round", "sqrt",
	"sub", "tointv", "tointx"}

func edCall(e *apd.ErrDecimal, op string, d, x, y *apd.Decimal, q int) (cnt int) {
	switch op {
	case "abs":
		e.Abs(d, x)
	case "add":
		e.Add(d, x, y)
	case "ceil":
		e.Ceil(d, x)
	case "exp":
		e.Exp(d, x)
	case "floor":
		e.Floor(d, x)
	case "ln":
		e.Ln(d, x)
	case "log10":
		e.Log10(d, x)
	case "mul":
		e.Mul(d, x, y)
	case "neg":
		e.Neg(d, x)
	case "pow":
		e.Pow(d, x, y)
	case "quantize":
		e.Quantize(d, x, int32(q))
	case "quo":
		e.Quo(d, x, y)
	case "quoint":
		e.QuoInteger(d, x, y)
	case "reduce":
		cnt, _ = e.Reduce(d, x)
	case "rem":
		e.Rem(d, x, y)
	case "round":
		e.Round(d, x)
	case "sqrt":
		e.Sqrt(d, x)
	case "sub":
		e.Sub(d, x, y)
	case "tointv":
		e.RoundToIntegralValue(d, x)
	case "tointx":
		e.RoundToIntegralExact(d, x)
	default:
		panic("no ErrDecimal wrapper for " + op)
	}
	return cnt
}

func runMachine(mode string, cj Ctx, init []Dec, steps []MStep) (ev MHEv) {
	ev = MHEv{K: "mh", Mode: mode, Ctx: cj, Init: init}
	regs := make([]*apd.Decimal, len(init))
	for i := range init {
		regs[i] = decDec(init[i])
	}
	c := decCtx(cj)
	ed := apd.MakeErrDecimal(c)
	before := sharedState()
	for _, s := range steps {
		st := MStep{Op: s.Op, D: s.D, X: s.X, Y: s.Y, Q: s.Q}
		xj, yj := encDec(regs[s.X]), encDec(regs[s.Y])
		if !binOps[s.Op] {
			yj = xj
		}
		// reference: the same operation on clones, fresh destination, fresh Context
		st.Ref = runAGuard(s.Op, cj, xj, yj, s.Q, "", fresh)
		func() {
			defer func() {
				if r := recover(); r != nil {
					st.Panic = fmt.Sprint(r)
				}
			}()
			d, x, y := regs[s.D], regs[s.X], regs[s.Y]
			if mode == "ed" {
				st.Cnt = edCall(&ed, s.Op, d, x, y, s.Q)
				st.EdFl = int(ed.Flags)
				st.EdEr = ed.Err() != nil
			} else {
				o := callOn(c, s.Op, d, x, y, s.Q)
				st.Fl, st.Err, st.Cnt = o.Fl, o.Err, o.Cnt
			}
		}()
		st.Sh = true
		st.CtxA = encCtx(c)
		for _, r := range regs {
			st.Post = append(st.Post, encDec(r))
		}
		ev.Steps = append(ev.Steps, st)
		if st.Panic != "" || st.Ref.Panic != "" {
			break
		}
	}
	if n := len(ev.Steps); n > 0 {
		// the package's shared tables and constants are compared once per history
		ev.Steps[n-1].Sh = before == sharedState()
	}
	var cs []interface{}
	for _, s := range steps {
		cs = append(cs, []interface{}{s.Op, s.D, s.X, s.Y, s.Q})
	}
	b, _ := json.Marshal([]interface{}{mode, cj, init, cs})
	ev.Key = "mh" + string(b)
	if len(ev.Key) > 400 {
		ev.Key = ev.Key[:400] + fmt.Sprintf("...#%d", len(ev.Key))
	}
	return ev
}

// callOn performs op on live registers (real pointer identity: d, x, y may alias).
func callOn(c *apd.Context, op string, d, x, y *apd.Decimal, q int) (out AOut) {
	var fl apd.Condition
	var err error
	switch op {
	case "add":
		fl, err = c.Add(d, x, y)
	case "sub":
		fl, err = c.Sub(d, x, y)
	case "mul":
		fl, err = c.Mul(d, x, y)
	case "quo":
		fl, err = c.Quo(d, x, y)
	case "quoint":
		fl, err = c.QuoInteger(d, x, y)
	case "rem":
		fl, err = c.Rem(d, x, y)
	case "cmp":
		fl, err = c.Cmp(d, x, y)
	case "pow":
		fl, err = c.Pow(d, x, y)
	case "abs":
		fl, err = c.Abs(d, x)
	case "neg":
		fl, err = c.Neg(d, x)
	case "round":
		fl, err = c.Round(d, x)
	case "quantize":
		fl, err = c.Quantize(d, x, int32(q))
	case "tointx":
		fl, err = c.RoundToIntegralExact(d, x)
	case "tointv":
		fl, err = c.RoundToIntegralValue(d, x)
	case "ceil":
		fl, err = c.Ceil(d, x)
	case "floor":
		fl, err = c.Floor(d, x)
	case "reduce":
		out.Cnt, fl, err = c.Reduce(d, x)
	case "sqrt":
		fl, err = c.Sqrt(d, x)
	case "cbrt":
		fl, err = c.Cbrt(d, x)
	case "exp":
		fl, err = c.Exp(d, x)
	case "ln":
		fl, err = c.Ln(d, x)
	case "log10":
		fl, err = c.Log10(d, x)
	case "dneg":
		d.Neg(x)
	case "dabs":
		d.Abs(x)
	case "dset":
		d.Set(x)
	case "dreduce":
		_, out.Cnt = d.Reduce(x)
	default:
		panic("unknown op " + op)
	}
	out.Fl, out.Err = int(fl), errStr(err)
	return out
}

func init() {
	reexec["mh"] = func(line []byte) interface{} {
		var ev MHEv
		if err := json.Unmarshal(line, &ev); err != nil {
			panic(err)
		}
		return runMachine(ev.Mode, ev.Ctx, ev.Init, ev.Steps)
	}
	gen := func(g *G, mode string, n int) {
		vs := loadDecs("domainSq.ndjson")
		cs := loadCtxs("ctxS.ndjson")
		huge := new(bigIntT).Lsh(bigInt(1), 200)
		for i := 0; i < n; i++ {
			c := cs[g.R.Intn(len(cs))]
			if g.R.Intn(3) == 0 {
				c = g.R.randCtxL(12)
			}
			if mode == "ed" {
				c.T = []int{0, 0x7af, 16, 64 | 16, 1024, 4095, g.R.Intn(4096)}[g.R.Intn(7)]
			}
			init := []Dec{vs[g.R.Intn(len(vs))], vs[g.R.Intn(len(vs))], g.R.randL(c.P, 6)}
			if g.R.Intn(4) == 0 { // a heap-backed coefficient (beyond 128 bits), with or without a fractional part
				init[g.R.Intn(3)] = finDec(g.R.bool(), new(bigIntT).Add(huge, bigInt(int64(g.R.Intn(1000)))), []int{g.R.between(-70, -40), g.R.between(-5, 5), 3}[g.R.Intn(3)])
			}
			if g.R.Intn(6) == 0 {
				init[g.R.Intn(3)].Hp = true
			}
			ops := machineOps
			if mode == "ed" {
				ops = edMachineOps
			}
			steps := make([]MStep, g.R.between(3, 14))
			for j := range steps {
				op := ops[g.R.Intn(len(ops))]
				if g.R.Intn(3) != 0 { // keep histories cheap: mostly the arithmetic core
					op = []string{"add", "sub", "mul", "quo", "rem", "quoint", "round", "quantize", "reduce", "abs", "neg", "floor", "ceil", "tointx"}[g.R.Intn(14)]
				}
				steps[j] = MStep{Op: op, D: g.R.Intn(3), X: g.R.Intn(3), Y: g.R.Intn(3), Q: g.R.between(-4, 4)}
			}
			g.emit(runMachine(mode, c, init, steps), "history/"+mode)
		}
	}
	// the four transcendental wrappers: short histories on small operands
	transc := func(g *G, mode string, n int) {
		for i := 0; i < n; i++ {
			c := Ctx{P: g.R.between(1, 9), Emin: -g.R.between(0, 20), Emax: g.R.between(9, 30), R: modeNames[g.R.Intn(8)]}
			if mode == "ed" {
				c.T = []int{0, 0x7af, 16, 64 | 16, 1024, 4095, g.R.Intn(4096)}[g.R.Intn(7)]
			}
			small := func() Dec { return finDec(g.R.Intn(4) == 0, bigInt(int64(g.R.between(0, 999))), g.R.between(-3, 0)) }
			init := []Dec{small(), small(), small()}
			steps := make([]MStep, g.R.between(2, 4))
			for j := range steps {
				steps[j] = MStep{Op: []string{"exp", "ln", "log10", "pow", "sqrt", "add"}[g.R.Intn(6)], D: g.R.Intn(3), X: g.R.Intn(3), Y: g.R.Intn(3)}
			}
			g.emit(runMachine(mode, c, init, steps), "transc/"+mode)
		}
	}
	drivers["machine"] = func(g *G) { gen(g, "ctx", g.pick(12000, 120000)); transc(g, "ctx", g.pick(1500, 40000)) }
	drivers["errdec"] = func(g *G) { gen(g, "ed", g.pick(12000, 120000)); transc(g, "ed", g.pick(1500, 40000)) }
}
