package main

import (
	"encoding/json"
	"fmt"
	"math"
	"math/big"
	"time"

	"github.com/cockroachdb/apd/v3"
)

// CallEv: one call of an exported entry point (C04). Only totality and the
// well-formedness of a produced Decimal are observed.
type CallEv struct {
	K     string `json:"k"` // "call"
	Fn    string `json:"fn"`
	Arg   string `json:"arg"`
	Panic string `json:"panic"` // "" | recovered panic text | "timeout"
	Has   bool   `json:"has"`   // a Decimal was produced
	Res   Dec    `json:"res"`
	Ms    int    `json:"ms"`
	Slow  bool   `json:"slow"` // domain X: a timeout here is inconclusive, not a hang
	Key   string `json:"key"`
}

var callLeaks = 0

// guarded runs f under recover and a watchdog.
func guarded(fn, arg string, slow bool, f func() *apd.Decimal) CallEv {
	ev := CallEv{K: "call", Fn: fn, Arg: arg, Res: none, Slow: slow, Key: "call|" + fn + "|" + arg}
	if callLeaks >= 4 {
		ev.Panic = "skipped-after-timeouts"
		return ev
	}
	type out struct {
		d *apd.Decimal
		p string
	}
	ch := make(chan out, 1)
	t0 := time.Now()
	go func() {
		var o out
		defer func() {
			if r := recover(); r != nil {
				o.p = fmt.Sprint(r)
				if len(o.p) > 80 {
					o.p = o.p[:80]
				}
			}
			ch <- o
		}()
		o.d = f()
	}()
	limit := callLimit()
	if slow {
		limit = 120 * time.Second
	}
	tm := time.NewTimer(limit)
	defer tm.Stop()
	select {
	case o := <-ch:
		ev.Panic = o.p
		if o.d != nil && o.p == "" {
			ev.Has = true
			ev.Res = encDec(o.d)
		}
	case <-tm.C:
		callLeaks++
		ev.Panic = "timeout"
	}
	ev.Ms = int(time.Since(t0) / time.Millisecond)
	return ev
}

// entry points exercised by the totality driver; compared with `go doc` by the orchestrator
var calledAPI = map[string]bool{}

type entry struct {
	name string
	f    func(c *apd.Context, x, y *apd.Decimal, q int) *apd.Decimal
}

func ctxEntries() []entry {
	w := func(f func(c *apd.Context, d, x, y *apd.Decimal, q int)) func(c *apd.Context, x, y *apd.Decimal, q int) *apd.Decimal {
		return func(c *apd.Context, x, y *apd.Decimal, q int) *apd.Decimal {
			d := new(apd.Decimal)
			f(c, d, x, y, q)
			return d
		}
	}
	return []entry{
		{"Context.Abs", w(func(c *apd.Context, d, x, y *apd.Decimal, q int) { c.Abs(d, x) })},
		{"Context.Add", w(func(c *apd.Context, d, x, y *apd.Decimal, q int) { c.Add(d, x, y) })},
		{"Context.Cbrt", w(func(c *apd.Context, d, x, y *apd.Decimal, q int) { c.Cbrt(d, x) })},
		{"Context.Ceil", w(func(c *apd.Context, d, x, y *apd.Decimal, q int) { c.Ceil(d, x) })},
		{"Context.Cmp", w(func(c *apd.Context, d, x, y *apd.Decimal, q int) { c.Cmp(d, x, y) })},
		{"Context.Exp", w(func(c *apd.Context, d, x, y *apd.Decimal, q int) { c.Exp(d, x) })},
		{"Context.Floor", w(func(c *apd.Context, d, x, y *apd.Decimal, q int) { c.Floor(d, x) })},
		{"Context.Ln", w(func(c *apd.Context, d, x, y *apd.Decimal, q int) { c.Ln(d, x) })},
		{"Context.Log10", w(func(c *apd.Context, d, x, y *apd.Decimal, q int) { c.Log10(d, x) })},
		{"Context.Mul", w(func(c *apd.Context, d, x, y *apd.Decimal, q int) { c.Mul(d, x, y) })},
		{"Context.Neg", w(func(c *apd.Context, d, x, y *apd.Decimal, q int) { c.Neg(d, x) })},
		{"Context.Pow", w(func(c *apd.Context, d, x, y *apd.Decimal, q int) { c.Pow(d, x, y) })},
		{"Context.Quantize", w(func(c *apd.Context, d, x, y *apd.Decimal, q int) { c.Quantize(d, x, int32(q)) })},
		{"Context.Quo", w(func(c *apd.Context, d, x, y *apd.Decimal, q int) { c.Quo(d, x, y) })},
		{"Context.QuoInteger", w(func(c *apd.Context, d, x, y *apd.Decimal, q int) { c.QuoInteger(d, x, y) })},
		{"Context.Reduce", w(func(c *apd.Context, d, x, y *apd.Decimal, q int) { c.Reduce(d, x) })},
		{"Context.Rem", w(func(c *apd.Context, d, x, y *apd.Decimal, q int) { c.Rem(d, x, y) })},
		{"Context.Round", w(func(c *apd.Context, d, x, y *apd.Decimal, q int) { c.Round(d, x) })},
		{"Context.RoundToIntegralExact", w(func(c *apd.Context, d, x, y *apd.Decimal, q int) { c.RoundToIntegralExact(d, x) })},
		{"Context.RoundToIntegralValue", w(func(c *apd.Context, d, x, y *apd.Decimal, q int) { c.RoundToIntegralValue(d, x) })},
		{"Context.Sqrt", w(func(c *apd.Context, d, x, y *apd.Decimal, q int) { c.Sqrt(d, x) })},
		{"Context.Sub", w(func(c *apd.Context, d, x, y *apd.Decimal, q int) { c.Sub(d, x, y) })},
		{"Context.WithPrecision", func(c *apd.Context, x, y *apd.Decimal, q int) *apd.Decimal {
			d := new(apd.Decimal)
			c.WithPrecision(uint32(q&31)).Add(d, x, y)
			return d
		}},
		{"Rounder.Round", w(func(c *apd.Context, d, x, y *apd.Decimal, q int) { c.Rounding.Round(c, d, x, q%2 == 0) })},
		{"Rounder.ShouldAddOne", func(c *apd.Context, x, y *apd.Decimal, q int) *apd.Decimal {
			c.Rounding.ShouldAddOne(&x.Coeff, x.Negative, q%3-1)
			return nil
		}},
		// ErrDecimal wrappers
		{"ErrDecimal.*", func(c *apd.Context, x, y *apd.Decimal, q int) *apd.Decimal {
			e := apd.MakeErrDecimal(c)
			d := new(apd.Decimal)
			op := edOps[(q%len(edOps)+len(edOps))%len(edOps)]
			if op == "exp" || op == "ln" || op == "log10" || op == "pow" {
				op = "add"
			}
			edCall(&e, op, d, x, y, q%7)
			e.Int64(d)
			e.Err()
			return d
		}},
		// Decimal methods
		{"Decimal.Abs", func(c *apd.Context, x, y *apd.Decimal, q int) *apd.Decimal { return new(apd.Decimal).Abs(x) }},
		{"Decimal.Neg", func(c *apd.Context, x, y *apd.Decimal, q int) *apd.Decimal { return new(apd.Decimal).Neg(x) }},
		{"Decimal.Set", func(c *apd.Context, x, y *apd.Decimal, q int) *apd.Decimal { return new(apd.Decimal).Set(x) }},
		{"Decimal.Reduce", func(c *apd.Context, x, y *apd.Decimal, q int) *apd.Decimal {
			d, _ := new(apd.Decimal).Reduce(x)
			return d
		}},
		{"Decimal.Cmp", func(c *apd.Context, x, y *apd.Decimal, q int) *apd.Decimal {
			if x.Form < apd.NaNSignaling && y.Form < apd.NaNSignaling {
				x.Cmp(y)
			}
			x.CmpTotal(y)
			return nil
		}},
		{"Decimal.Modf", func(c *apd.Context, x, y *apd.Decimal, q int) *apd.Decimal {
			if x.Form != apd.Finite {
				return nil
			}
			var i, f apd.Decimal
			switch q % 3 {
			case 0:
				x.Modf(&i, &f)
			case 1:
				x.Modf(&i, nil)
			default:
				x.Modf(nil, &f)
				return &f
			}
			return &i
		}},
		{"Decimal.misc", func(c *apd.Context, x, y *apd.Decimal, q int) *apd.Decimal {
			x.IsZero()
			x.Sign()
			x.NumDigits()
			x.Size()
			x.Int64()
			if x.Form != apd.Finite || (x.Exponent < 3000 && x.Exponent > -3000) {
				x.Float64()
				_ = x.String()
				x.Text("GgEef?"[(q%6+6)%6])
				x.Append(nil, 'G')
				x.MarshalText()
				x.Value()
				_ = fmt.Sprintf([]string{"%v", "%s", "%G", "%-010e", "%+ 12f", "%x", "%d", "%08F", "% g"}[(q%9+9)%9], x)
			}
			var n apd.NullDecimal
			n.Scan(nil)
			n.Value()
			n.Scan(x.String())
			n.Value()
			form, neg, coeff, exp := x.Decompose(nil)
			var back apd.Decimal
			back.Compose(form, neg, coeff, exp)
			back.Compose(byte(q&3), neg, coeff, exp)
			return &back
		}},
		{"Condition.*", func(c *apd.Context, x, y *apd.Decimal, q int) *apd.Decimal {
			r := apd.Condition(q & 4095)
			_ = r.String()
			r.GoError(apd.Condition((q * 7) & 4095))
			r.Any()
			_ = apd.Form(q & 3).String()
			return nil
		}},
	}
}

func init() {
	reexec["call"] = func(line []byte) interface{} {
		var ev CallEv
		json.Unmarshal(line, &ev)
		// a single call is re-executed by re-running the driver's deterministic enumeration; here: report as recorded
		return ev
	}
	drivers["total"] = dTotal
}

func dTotal(g *G) {
	vs := loadDecs("domainSq.ndjson")
	pool := append([]Dec{}, vs...)
	pool = append(pool, dirtySpecials()...)
	for i := 0; i < 60; i++ {
		pool = append(pool, g.R.randL(g.R.between(1, 60), 2000))
	}
	// heap-backed and negative-coefficient-free boundary values
	for _, k := range []uint{63, 64, 127, 128, 129, 200, 1000} {
		v := new(big.Int).Lsh(big.NewInt(1), k)
		pool = append(pool, finDec(false, v, 0), finDec(true, new(big.Int).Sub(v, big.NewInt(1)), -int(k/3)))
	}
	ctxs := []Ctx{{P: 0, Emin: -100000, Emax: 100000, T: 0x7af}} // BaseContext
	for _, p := range []int{0, 1, 2, 5, 9, 20, 40} {
		for _, t := range []int{0, 0x7af, 4095, 16, 64, 32 | 8} {
			ctxs = append(ctxs, Ctx{P: p, Emin: -g.R.between(0, 30), Emax: g.R.between(p, p+30), R: modeNames[g.R.Intn(8)], T: t})
			ctxs = append(ctxs, Ctx{P: p, Emin: -100000, Emax: 100000, R: modeNames[g.R.Intn(8)], T: t})
		}
	}
	ents := ctxEntries()
	n := g.pick(150000, 3000000)
	for i := 0; i < n; i++ {
		e := ents[g.R.Intn(len(ents))]
		c := ctxs[g.R.Intn(len(ctxs))]
		xj, yj := pool[g.R.Intn(len(pool))], pool[g.R.Intn(len(pool))]
		// keep the iterative functions in the moderate domain (DESIGN C04): small magnitudes, p <= 20
		switch e.name {
		case "Context.Exp", "Context.Ln", "Context.Log10", "Context.Pow", "Context.Cbrt", "Context.Sqrt":
			if c.P > 20 {
				c.P = 20
				if c.Emax < 20 {
					c.Emax = 20
				}
			}
			if xj.F == 0 && (xj.E > 20 || xj.E < -60) {
				xj.E = g.R.between(-20, 6)
			}
			if yj.F == 0 && (yj.E > 1 || yj.E < -10) {
				yj.E = g.R.between(-4, 1)
			}
			if len(xj.C) > 8 {
				xj.C = xj.C[len(xj.C)-8:]
			}
			if len(yj.C) > 2 {
				yj.C = yj.C[len(yj.C)-2:]
			}
		}
		q := g.R.between(-12, 12)
		calledAPI[e.name] = true
		arg := fmt.Sprintf("%s|%s|%s|q%d", ctxStr(c), decStr(xj), decStr(yj), q)
		ent := e
		g.emit(guarded(e.name, arg, false, func() *apd.Decimal { return ent.f(decCtx(c), decDec(xj), decDec(yj), q) }), e.name)
	}
	// domain X: exponents and adjusted exponents at the package limits (sparse: single operations take seconds)
	xs := []Dec{finDec(false, big.NewInt(1), 100000), finDec(true, big.NewInt(1), -100000), finDec(false, big.NewInt(999), 99997),
		finDec(false, big.NewInt(5), -99999), finDec(false, big.NewInt(0), 100000), finDec(true, big.NewInt(0), -100000)}
	nx := g.pick(40, 600)
	cheap := []string{"Context.Add", "Context.Sub", "Context.Mul", "Context.Quo", "Context.Round", "Context.Reduce", "Context.Cmp",
		"Context.Abs", "Context.Neg", "Context.Quantize", "Context.Rem", "Context.QuoInteger", "Decimal.Cmp", "Decimal.Reduce", "Decimal.misc"}
	for i := 0; i < nx; i++ {
		name := cheap[g.R.Intn(len(cheap))]
		var ent entry
		for _, e := range ents {
			if e.name == name {
				ent = e
			}
		}
		c := Ctx{P: []int{0, 1, 9}[g.R.Intn(3)], Emin: -100000, Emax: 100000, R: modeNames[g.R.Intn(8)], T: []int{0, 0x7af}[g.R.Intn(2)]}
		xj, yj := xs[g.R.Intn(len(xs))], xs[g.R.Intn(len(xs))]
		if g.R.bool() {
			yj = pool[g.R.Intn(len(vs))]
		}
		q := []int{-100000, 100000, 0, 99999}[g.R.Intn(4)]
		arg := fmt.Sprintf("%s|%s|%s|q%d", ctxStr(c), decStr(xj), decStr(yj), q)
		g.emit(guarded(name, arg, true, func() *apd.Decimal { return ent.f(decCtx(c), decDec(xj), decDec(yj), q) }), "X/"+name)
	}
	// high precision with tiny / moderate arguments for the iterative functions (a few hundred calls)
	hp := []string{"Context.Exp", "Context.Ln", "Context.Log10", "Context.Sqrt", "Context.Cbrt", "Context.Pow"}
	args := []Dec{finDec(false, big.NewInt(1), -350), finDec(true, big.NewInt(1), -310), finDec(false, big.NewInt(5), -400), finDec(false, big.NewInt(1), -30),
		finDec(false, big.NewInt(5), -1), finDec(false, big.NewInt(123456), -3), finDec(true, big.NewInt(77), -1)}
	for _, p := range []int{50, 120, 320, 400} {
		for _, name := range hp {
			var ent entry
			for _, e := range ents {
				if e.name == name {
					ent = e
				}
			}
			for _, xj := range args {
				xj := xj
				c := Ctx{P: p, Emin: -100000, Emax: 100000, R: "half_even", T: []int{0, 0x7af}[g.R.Intn(2)]}
				yj := finDec(false, big.NewInt(5), -1)
				arg := fmt.Sprintf("%s|%s|%s", ctxStr(c), decStr(xj), decStr(yj))
				g.emit(guarded(name, arg, false, func() *apd.Decimal { return ent.f(decCtx(c), decDec(xj), decDec(yj), 0) }), "highprec/"+name) // measured: at most 21 ms each, so the ordinary watchdog applies
			}
		}
	}
	// constructors and setters on int64 / float64 boundaries
	for _, v := range int64Boundaries() {
		v := v
		g.emit(guarded("New/SetInt64/SetFinite/NewWithBigInt/NewBigInt", fmt.Sprint(v), false, func() *apd.Decimal {
			apd.New(v, int32(v%100000))
			new(apd.Decimal).SetInt64(v)
			apd.NewWithBigInt(apd.NewBigInt(v), 3)
			return new(apd.Decimal).SetFinite(v, -int32(v%7))
		}), "ctor")
	}
	// NewWithBigInt on negative integers of every storage shape (one word, two words, heap, heap-backed but small again),
	// the result then used by a rounding operation in every mode
	for i := 0; i < 60; i++ {
		var v *big.Int
		switch i % 4 {
		case 0:
			v = big.NewInt(-int64(g.R.between(1, 1<<30)))
		case 1:
			v = new(big.Int).Neg(g.R.near2())
		case 2:
			v = new(big.Int).Neg(g.R.digits(g.R.between(20, 60)))
		default:
			v = big.NewInt(-int64(g.R.between(1, 999999)))
		}
		shrunk := i%4 == 3
		mode := modeNames[i%8]
		e := g.R.between(-5, 5)
		g.emit(guarded("NewWithBigInt+Context.Round", fmt.Sprintf("%s|%d|%s|shrunk=%v", v.String(), e, mode, shrunk), false, func() *apd.Decimal {
			var b apd.BigInt
			if shrunk { // once wider than the inline array, now small: still heap-backed
				huge := new(big.Int).Lsh(big.NewInt(1), 200)
				b.SetMathBigInt(new(big.Int).Sub(v, huge))
				var h apd.BigInt
				h.SetMathBigInt(huge)
				b.Add(&b, &h)
			} else {
				b.SetMathBigInt(v)
			}
			d := apd.NewWithBigInt(&b, int32(e))
			c := decCtx(Ctx{P: 3, Emin: -100000, Emax: 100000, R: mode})
			out := new(apd.Decimal)
			c.Round(out, d)
			if d.Coeff.Sign() < 0 {
				return d // ill-formed: reported by the wf conjunct
			}
			return out
		}), "ctor")
	}
	for _, f := range append(floatBoundaries(), math.Float64frombits(0x7ff8000000000001), math.Float64frombits(0xfff0000000000000)) {
		f := f
		g.emit(guarded("Decimal.SetFloat64/Scan", fmt.Sprintf("%016x", math.Float64bits(f)), false, func() *apd.Decimal {
			d := new(apd.Decimal)
			d.SetFloat64(f)
			d.Scan(f)
			d.Scan(int64(f))
			d.Scan(true)
			return d
		}), "ctor")
	}
	var names []string
	for k := range calledAPI {
		names = append(names, k)
	}
	g.emit(map[string]interface{}{"k": "api", "called": names, "key": "api-coverage"}, "api")
}

// CondEv: Condition.GoError / Condition.String on every condition word and a sample of trap sets (C03's mechanism).
type CondEv struct {
	K   string `json:"k"` // "cond"
	R   int    `json:"r"`
	T   int    `json:"t"`
	Err string `json:"err"`
	Ret int    `json:"ret"`
	S   string `json:"s"`
	Any bool   `json:"any"`
	Key string `json:"key"`
}

func init() {
	drivers["conditions"] = func(g *G) {
		traps := []int{0, 0x7af, 4095, 16, 64, 1024, 2048, 1, 2, 3}
		for i := 0; i < 6; i++ {
			traps = append(traps, g.R.Intn(4096))
		}
		for r := 0; r < 4096; r++ {
			for _, t := range traps {
				c := apd.Condition(r)
				ret, err := c.GoError(apd.Condition(t))
				g.emit(CondEv{K: "cond", R: r, T: t, Err: errStr(err), Ret: int(ret), S: c.String(), Any: c.Any(),
					Key: fmt.Sprintf("cond|%d|%d", r, t)}, "cond")
			}
		}
	}
	reexec["cond"] = func(line []byte) interface{} {
		var ev CondEv
		json.Unmarshal(line, &ev)
		c := apd.Condition(ev.R)
		ret, err := c.GoError(apd.Condition(ev.T))
		return CondEv{K: "cond", R: ev.R, T: ev.T, Err: errStr(err), Ret: int(ret), S: c.String(), Any: c.Any(), Key: ev.Key}
	}
}
