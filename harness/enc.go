package main

import (
	"math/big"
	"strings"

	"github.com/cockroachdb/apd/v3"
)

// Dec is the projection of an apd.Decimal that the TLA+ specification sees:
// form, sign, |coefficient| as little-endian base-1000 limbs, exponent, and
// (observation only) the sign of the stored coefficient.
type Dec struct {
	F  int   `json:"f"`
	N  bool  `json:"n"`
	C  []int `json:"c"`
	E  int   `json:"e"`
	CS int   `json:"cs"`
	Hp bool  `json:"hp,omitempty"` // case field: build the coefficient heap-backed (a BigInt that was once wider than 128 bits)
}

// Ctx is the projection of an apd.Context.
type Ctx struct {
	P    int    `json:"p"`
	Emax int    `json:"emax"`
	Emin int    `json:"emin"`
	R    string `json:"r"`
	T    int    `json:"t"`
}

var big1000 = big.NewInt(1000)

func limbsOf(b *big.Int) []int {
	a := new(big.Int).Abs(b)
	out := []int{}
	m := new(big.Int)
	for a.Sign() != 0 {
		a.QuoRem(a, big1000, m)
		out = append(out, int(m.Int64()))
	}
	return out
}

func bigOfLimbs(l []int) *big.Int {
	r := new(big.Int)
	for i := len(l) - 1; i >= 0; i-- {
		r.Mul(r, big1000)
		r.Add(r, big.NewInt(int64(l[i])))
	}
	return r
}

func encDec(d *apd.Decimal) Dec {
	if d == nil {
		return Dec{F: -1, C: []int{}}
	}
	mb := d.Coeff.MathBigInt() // a copy of the stored integer; no BigInt arithmetic involved
	return Dec{F: int(d.Form), N: d.Negative, C: limbsOf(mb), E: int(d.Exponent), CS: mb.Sign()}
}

func decDec(j Dec) *apd.Decimal {
	d := new(apd.Decimal)
	d.Form = apd.Form(j.F)
	d.Negative = j.N
	d.Exponent = int32(j.E)
	v := bigOfLimbs(j.C)
	if j.Hp {
		// grow beyond the inline array, then shrink in place: the value is v, the storage stays on the heap
		huge := new(big.Int).Lsh(big.NewInt(1), 300)
		d.Coeff.SetMathBigInt(new(big.Int).Add(huge, v))
		var h apd.BigInt
		h.SetMathBigInt(huge)
		d.Coeff.Sub(&d.Coeff, &h)
	} else {
		d.Coeff.SetMathBigInt(v)
	}
	return d
}

func encCtx(c *apd.Context) Ctx {
	return Ctx{P: int(c.Precision), Emax: int(c.MaxExponent), Emin: int(c.MinExponent), R: string(c.Rounding), T: int(c.Traps)}
}

func decCtx(j Ctx) *apd.Context {
	return &apd.Context{Precision: uint32(j.P), MaxExponent: int32(j.Emax), MinExponent: int32(j.Emin), Rounding: apd.Rounder(j.R), Traps: apd.Condition(j.T)}
}

func errStr(err error) string {
	if err == nil {
		return ""
	}
	s := err.Error()
	// the system-limit refusal of upscale is wrapped with the operation's name ("add: exponent out of range")
	if strings.HasSuffix(s, ": exponent out of range") {
		return "exponent out of range"
	}
	return s
}

type apdBigInt = apd.BigInt
type apdRounder = apd.Rounder
