package main

import (
	"bufio"
	"os"
	"path/filepath"
	"strconv"
	"strings"

	"github.com/cockroachdb/apd/v3"
)

// vectors driver (domain V): the operands and contexts of the General Decimal
// Arithmetic test vectors in /repo/testdata are re-driven through the public
// API - the vectors the repository's suite ignores included - and judged by the
// specification. The expected-result column of the vectors is NOT read.
var vecOps = map[string]string{"add": "add", "subtract": "sub", "multiply": "mul", "divide": "quo", "divideint": "quoint",
	"remainder": "rem", "abs": "abs", "minus": "neg", "plus": "round", "quantize": "quantize", "reduce": "reduce",
	"tointegral": "tointv", "tointegralx": "tointx", "squareroot": "sqrt", "compare": "cmp", "power": "pow", "exp": "exp",
	"ln": "ln", "log10": "log10", "cuberoot": "cbrt"}

func splitVec(line string) []string {
	var out []string
	var cur strings.Builder
	inq := byte(0)
	flush := func() {
		if cur.Len() > 0 {
			out = append(out, cur.String())
			cur.Reset()
		}
	}
	for i := 0; i < len(line); i++ {
		ch := line[i]
		switch {
		case inq != 0:
			if ch == inq {
				if i+1 < len(line) && line[i+1] == inq { // doubled quote
					cur.WriteByte(ch)
					i++
				} else {
					inq = 0
					out = append(out, cur.String())
					cur.Reset()
				}
			} else {
				cur.WriteByte(ch)
			}
		case ch == '\'' || ch == '"':
			flush()
			inq = ch
		case ch == ' ' || ch == '\t':
			flush()
		default:
			cur.WriteByte(ch)
		}
	}
	flush()
	return out
}

func init() {
	drivers["vectors"] = func(g *G) {
		repo := os.Getenv("VERIF_REPO")
		if repo == "" {
			repo = "/repo"
		}
		only := map[string]bool{}
		for _, o := range strings.Split(os.Getenv("VERIF_VEC_OPS"), ",") {
			if o != "" {
				only[o] = true
			}
		}
		files, _ := filepath.Glob(filepath.Join(repo, "testdata", "*.decTest"))
		for _, fn := range files {
			fh, err := os.Open(fn)
			if err != nil {
				continue
			}
			c := Ctx{P: 9, Emax: 384, Emin: -383, R: "half_up"}
			sc := bufio.NewScanner(fh)
			sc.Buffer(make([]byte, 1<<20), 1<<24)
			for sc.Scan() {
				line := sc.Text()
				if i := strings.Index(line, "--"); i >= 0 {
					line = line[:i]
				}
				line = strings.TrimSpace(line)
				if line == "" {
					continue
				}
				if i := strings.Index(line, ":"); i > 0 && !strings.Contains(line, "->") {
					key := strings.ToLower(strings.TrimSpace(line[:i]))
					val := strings.TrimSpace(line[i+1:])
					n, _ := strconv.Atoi(val)
					switch key {
					case "precision":
						c.P = n
					case "maxexponent":
						c.Emax = n
					case "minexponent":
						c.Emin = n
					case "rounding":
						c.R = strings.ToLower(val)
					}
					continue
				}
				tok := splitVec(line)
				if len(tok) < 4 {
					continue
				}
				op, ok := vecOps[strings.ToLower(tok[1])]
				if !ok || (len(only) > 0 && !only[op]) {
					continue
				}
				arrow := -1
				for i, t := range tok {
					if t == "->" {
						arrow = i
					}
				}
				if arrow < 3 || arrow > 4 {
					continue
				}
				// the properties' well-formed contexts only
				if c.P < 1 || c.P > c.Emax || c.Emin > 0 || c.Emax > 100000 || c.Emin < -100000 {
					continue
				}
				ok = true
				for _, m := range modeNames {
					if m == c.R {
						ok = false
					}
				}
				if ok { // unknown rounding name
					continue
				}
				parse := func(s string) (Dec, bool) {
					if s == "#" {
						return none, false
					}
					d, _, err := apd.NewFromString(s)
					if err != nil {
						return none, false
					}
					e := encDec(d)
					if e.F == 0 && (e.E > 90000 || e.E < -90000) {
						return none, false
					}
					return e, true
				}
				x, okx := parse(tok[2])
				if !okx {
					continue
				}
				y := x
				if arrow == 4 {
					var oky bool
					if y, oky = parse(tok[3]); !oky {
						continue
					}
				}
				q := 0
				if op == "quantize" {
					if y.F != 0 {
						continue
					}
					q = y.E
				}
				modes := []string{c.R}
				switch op {
				case "pow", "exp", "ln", "log10", "cbrt", "sqrt":
				default:
					modes = modeNames
				}
				for _, m := range modes {
					cc := c
					cc.R = m
					g.emit(mkA(op, cc, x, y, q, "", fresh), "vec/"+op)
				}
			}
			fh.Close()
		}
	}
}
