package main

import (
	"fmt"
	"runtime"
	"sync"

	"github.com/cockroachdb/apd/v3"
)

// ConcEv: one case executed alone ("seq") and by every goroutine concurrently
// on the SAME Context value and the SAME operand Decimals, each goroutine
// writing to its own destination.
type ConcEv struct {
	K    string     `json:"k"` // "conc"
	Op   string     `json:"op"`
	Ctx  Ctx        `json:"ctx"`
	X    Dec        `json:"x"`
	Y    Dec        `json:"y"`
	Q    int        `json:"q"`
	Seq  AOut       `json:"seq"`
	Conc []AOut     `json:"conc"`
	RO   []string   `json:"ro"`  // read-only method results when run alone
	ROC  [][]string `json:"roc"` // the same from each goroutine
	Key  string     `json:"key"`
}

type concCase struct {
	op string
	ci int
	xi int
	yi int
	q  int
}

func readOnly(x, y *apd.Decimal) []string {
	out := []string{x.String(), fmt.Sprint(x.CmpTotal(y)), fmt.Sprint(x.Sign()), fmt.Sprint(x.NumDigits()), fmt.Sprint(x.IsZero())}
	if x.Form < apd.NaNSignaling && y.Form < apd.NaNSignaling {
		out = append(out, fmt.Sprint(x.Cmp(y)))
	}
	if v, err := x.Int64(); err == nil {
		out = append(out, fmt.Sprint(v))
	}
	if x.Exponent < 400 && x.Exponent > -400 {
		f, _ := x.Float64()
		out = append(out, fmt.Sprint(f), x.Text('f'), fmt.Sprintf("%024v|%24v|%-24G|%+.0e", x, x, x, x))
	}
	return out
}

func init() {
	drivers["conc"] = func(g *G) {
		vs := loadDecs("domainSq.ndjson")
		var pool []Dec
		for i := 0; i < 10; i++ {
			pool = append(pool, vs[g.R.Intn(len(vs))])
		}
		for i := 0; i < 8; i++ { // heap-backed coefficients
			pool = append(pool, g.R.randL(60, 10))
		}
		pool = append(pool, dirtySpecials()[:4]...)
		// long coefficients (> 256 bits) of moderate magnitude in the slots the iterative functions draw from
		for i, k := range []int{91, 120} {
			c := g.R.digits(k)
			pool[8+i] = finDec(false, c, -(k - 1 - i))
		}
		// small values whose coefficient is still heap-backed (a BigInt that was once wide), never read since
		for i := 0; i < 4; i++ {
			d := g.R.randL(g.R.between(1, 25), 6)
			d.Hp = true
			pool = append(pool, d)
			if i < 2 {
				pool[6+i] = d
			}
		}
		var ctxs []Ctx
		for i := 0; i < 6; i++ {
			c := g.R.randCtxL(14)
			ctxs = append(ctxs, c)
		}
		ctxs[4].T = 2047 // every condition trapped but Clamped (Inexact and Rounded included)
		ctxs[5].T = 1967 | 16
		// exponents more than 100000 apart (Add/Sub refuse them: the error paths run too) and coefficients of 4000+ digits of
		// different lengths (only for the cheap operations)
		pool = append(pool, finDec(false, bigInt(1), 60000), finDec(true, bigInt(7), -60000),
			finDec(false, g.R.digits(4100), -4000), finDec(true, g.R.digits(4333), -4300))
		farFrom := len(pool) - 4
		ctxs = append(ctxs, Ctx{P: 100, Emin: -100000, Emax: 100000, R: "half_up"})
		allNines := len(ctxs) - 1
		for _, k := range []int{39, 45, 70} { // 99..9.5: rounding to an integer rolls over to 10^k, a value the power-of-ten table also holds
			c := new(bigIntT).Exp(bigInt(10), bigInt(int64(k+1)), nil)
			c.Sub(c, bigInt(5))
			pool = append(pool, finDec(false, c, -1))
		}
		ninesFrom := len(pool) - 3
		ctxs = append(ctxs, Ctx{P: 3, Emin: -2, Emax: 3, R: "half_even"}, Ctx{P: 0, Emin: -100000, Emax: 100000},
			Ctx{P: 400, Emin: -100000, Emax: 100000, R: "down"}) // wide enough for rescaling by more than 10^128
		ops := []string{"add", "sub", "mul", "quo", "quoint", "rem", "cmp", "abs", "neg", "round", "quantize", "tointx", "tointv",
			"ceil", "floor", "reduce", "sqrt", "cbrt", "exp", "ln", "log10", "pow"}
		rounds := g.pick(6, 120)
		for round := 0; round < rounds; round++ {
			// shared objects of this round
			sx := make([]*apd.Decimal, len(pool))
			for i, p := range pool {
				sx[i] = decDec(p)
			}
			sc := make([]*apd.Context, len(ctxs))
			for i, c := range ctxs {
				sc[i] = decCtx(c)
			}
			ncase := 160
			cases := make([]concCase, ncase)
			for i := range cases {
				cc := concCase{op: ops[g.R.Intn(len(ops))], ci: g.R.Intn(len(sc)), xi: g.R.Intn(farFrom), yi: g.R.Intn(farFrom), q: g.R.between(-3, 3)}
				if cc.op == "quantize" && g.R.Intn(3) == 0 { // pad by more than 128 digits (beyond the power-of-ten table)
					cc.ci = len(sc) - 1
					cc.q = -[]int{140, 200, 300}[g.R.Intn(3)]
				}
				if (cc.op == "add" || cc.op == "sub") && g.R.Intn(4) == 0 { // refused: exponents too far apart
					cc.xi, cc.yi = farFrom+g.R.Intn(2), farFrom+g.R.Intn(2)
				}
				if (cc.op == "add" || cc.op == "sub" || cc.op == "cmp" || cc.op == "abs" || cc.op == "neg" || cc.op == "round" || cc.op == "reduce") && g.R.Intn(5) == 0 {
					cc.xi, cc.yi = farFrom+2+g.R.Intn(2), farFrom+2+g.R.Intn(2) // 4000+ digits
					if g.R.bool() {
						cc.yi = g.R.Intn(10)
					}
				}
				if (cc.op == "quantize" || cc.op == "tointx" || cc.op == "tointv") && g.R.Intn(3) == 0 {
					cc.ci, cc.xi, cc.q = allNines, ninesFrom+g.R.Intn(3), 0
				}
				if cc.op == "round" && g.R.Intn(4) == 0 { // rounding that needs 10^k, 39 <= k <= 70, from the table
					cc.ci, cc.xi = 0, ninesFrom+g.R.Intn(3)
				}
				if (cc.op == "add" || cc.op == "sub" || cc.op == "cmp") && g.R.Intn(6) == 0 {
					cc.ci = len(sc) - 1 // exponent gaps beyond the table as well
				}
				switch cc.op {
				case "exp", "ln", "log10", "pow", "sqrt", "cbrt": // keep the iterative functions cheap: small operands only
					cc.xi = g.R.Intn(10)
					cc.yi = g.R.Intn(10)
					if sc[cc.ci].Precision == 0 || sc[cc.ci].Precision > 40 {
						cc.ci = g.R.Intn(6)
					}
				}
				cases[i] = cc
			}
			// the concurrent phase gets its own, identically built and so far untouched objects: a "read-only" method that
			// writes to its operand on first use must do so while the other goroutines are looking
			build := func() {
				for i, p := range pool {
					sx[i] = decDec(p)
				}
				for i, c := range ctxs {
					sc[i] = decCtx(c)
				}
			}
			// every caller keeps ONE private destination for all its calls and now and then goes on computing with it in
			// place: a result that shares storage with a shared operand or a package table is written through here
			callShared := func(cc concCase, d *apd.Decimal, follow bool) (o AOut) {
				defer func() {
					if r := recover(); r != nil {
						o.Panic = fmt.Sprint(r)
						o.Res, o.XA, o.YA = none, none, none
					}
				}()
				o = callOn(sc[cc.ci], cc.op, d, sx[cc.xi], sx[cc.yi], cc.q)
				o.Res = encDec(d)
				if follow && d.Form == apd.Finite {
					private := apd.BaseContext.WithPrecision(0)
					private.Add(d, d, d)
				}
				o.XA, o.YA = none, none
				o.CtxA = encCtx(sc[cc.ci])
				return o
			}
			before := make([]Dec, len(sx))
			for i := range sx {
				before[i] = encDec(sx[i])
			}
			shb := sharedState()
			// alone
			seq := make([]AOut, ncase)
			ro := make([][]string, ncase)
			dAlone := new(apd.Decimal)
			for i, cc := range cases {
				seq[i] = callShared(cc, dAlone, i%3 == 0)
				ro[i] = readOnly(sx[cc.xi], sx[cc.yi])
			}
			// concurrently
			build()
			for i := range sx {
				before[i] = encDec(sx[i])
			}
			G := 8
			res := make([][]AOut, G)
			roc := make([][][]string, G)
			var wg sync.WaitGroup
			start := make(chan struct{})
			for gi := 0; gi < G; gi++ {
				res[gi] = make([]AOut, ncase)
				roc[gi] = make([][]string, ncase)
				wg.Add(1)
				go func(gi int, off int) {
					defer wg.Done()
					<-start
					dOwn := new(apd.Decimal)
					for k := 0; k < ncase; k++ {
						i := (k*7 + off) % ncase
						res[gi][i] = callShared(cases[i], dOwn, i%3 == 0)
						roc[gi][i] = readOnly(sx[cases[i].xi], sx[cases[i].yi])
						if (k+gi)%5 == 0 {
							runtime.Gosched()
						}
					}
				}(gi, g.R.Intn(ncase))
			}
			close(start)
			wg.Wait()
			for i, cc := range cases {
				ev := ConcEv{K: "conc", Op: cc.op, Ctx: ctxs[cc.ci], X: pool[cc.xi], Y: pool[cc.yi], Q: cc.q, Seq: seq[i], RO: ro[i]}
				for gi := 0; gi < G; gi++ {
					ev.Conc = append(ev.Conc, res[gi][i])
					ev.ROC = append(ev.ROC, roc[gi][i])
				}
				ev.Key = "conc|" + cc.op + "|" + ctxStr(ctxs[cc.ci]) + "|" + decStr(pool[cc.xi]) + "|" + decStr(pool[cc.yi]) + fmt.Sprintf("|q%d", cc.q)
				g.emit(ev, "conc/"+cc.op)
				// the outcome when run alone is also judged as an ordinary call event (not for the 4000-digit operands: their
				// arithmetic is judged elsewhere at sizes the specification evaluates quickly; here only equality matters)
				if cc.xi < farFrom+2 && cc.yi < farFrom+2 || cc.xi >= farFrom+4 {
					g.emit(mkA(cc.op, ctxs[cc.ci], pool[cc.xi], pool[cc.yi], cc.q, "", fresh), "alone/"+cc.op)
				}
			}
			after := make([]Dec, len(sx))
			for i := range sx {
				after[i] = encDec(sx[i])
			}
			ctxAfter := make([]Ctx, len(sc))
			for i := range sc {
				ctxAfter[i] = encCtx(sc[i])
			}
			g.emit(map[string]interface{}{"k": "concsnap", "before": before, "after": after, "ctxb": ctxs, "ctxa": ctxAfter,
				"shb": shb, "sha": sharedState(), "key": fmt.Sprintf("conc-snapshot|round%d", round)}, "snapshot")
		}
	}
}
