package main

import (
	"math"
	"math/big"
	"strconv"
	"strings"

	"github.com/cockroachdb/apd/v3"
)

// transc driver (C12). Operands are seeded; for Pow with a fractional exponent
// the event carries an UNTRUSTED approximation of ln x (computed with the code
// under test at a higher precision) which the specification verifies with its
// own enclosure before using it - an unverifiable hint only makes the event
// undecided, never a violation.
func lnHint(x Dec, p int) Dec {
	c := apd.Context{Precision: uint32(p + 22), MaxExponent: 100000, MinExponent: -100000, Rounding: apd.RoundHalfEven}
	var d apd.Decimal
	ch := make(chan bool, 1)
	go func() {
		defer func() { recover(); ch <- true }()
		c.Ln(&d, decDec(absDec(x)))
	}()
	<-ch
	if d.Form != apd.Finite || d.IsZero() {
		return none
	}
	// keep p+18 digits: the spec proves |h - ln x| <= one unit of h's last digit
	c.Precision = uint32(p + 18)
	c.Round(&d, &d)
	return encDec(&d)
}

// transcN: the iterative functions in NARROW exponent ranges with results near the edges (arguments close to 1 for
// the logarithms, moderate magnitudes for Exp/Pow/roots): the results must fit the context (C07) and overflow /
// underflow may be claimed only when real (C12).
func init() {
	drivers["transcN"] = func(g *G) {
		n := g.pick(500, 8000)
		for i := 0; i < n; i++ {
			p := g.R.between(1, 9)
			c := Ctx{P: p, Emin: -g.R.between(0, 6), Emax: g.R.between(p, p+6), R: modeNames[g.R.Intn(8)]}
			if g.R.Intn(3) == 0 {
				c.Emax = g.R.between(0, 3)
			}
			op := []string{"log10", "ln", "exp", "sqrt", "cbrt", "log10", "ln"}[g.R.Intn(7)]
			var x Dec
			switch op {
			case "log10", "ln": // 1 +- tiny: the logarithm is far below 10^Emin
				k := g.R.between(1, 9)
				b := new(big.Int).Exp(big.NewInt(10), big.NewInt(int64(k)), nil)
				b.Add(b, big.NewInt(int64(g.R.between(-9, 9))))
				x = finDec(false, b, -k)
				if g.R.Intn(4) == 0 {
					x = finDec(false, g.R.digits(g.R.between(1, p+2)), g.R.between(-30, 30))
				}
				if g.R.Intn(4) == 0 { // a logarithm whose magnitude is just inside (or outside) 10^(Emax+1)
					lim := 10
					for j := 0; j < c.Emax && lim < 100000; j++ {
						lim *= 10
					}
					k := g.R.between(lim/5, lim+lim/10)
					if k > 99000 {
						k = 99000
					}
					if g.R.bool() {
						k = -k
					}
					x = finDec(false, g.R.digits(g.R.between(1, 3)), k)
				}
			case "exp":
				x = finDec(g.R.bool(), g.R.digits(g.R.between(1, 3)), g.R.between(-9, 0))
			default:
				x = finDec(false, g.R.digits(g.R.between(1, p+3)), g.R.between(-30, 30))
			}
			g.emit(mkA(op, c, x, x, 0, "", fresh), "narrow/"+op)
		}
	}
}

func init() {
	drivers["transc"] = func(g *G) {
		// fixed witnesses of the recorded finding "Exp reports overflow/underflow beyond |x| > 23*1000" (known_findings.json)
		wctx := Ctx{P: 9, Emin: -100000, Emax: 100000, R: "half_even"}
		for _, w := range []Dec{finDec(false, big.NewInt(3), 4), finDec(false, big.NewInt(8), 4), finDec(true, big.NewInt(5), 4), finDec(true, big.NewInt(93), 3)} {
			g.emit(mkA("exp", wctx, w, w, 0, "", fresh), "exp/witness")
		}
		// fixed witnesses of the recorded finding "Pow loses accuracy for integer exponents beyond 10^6"
		for _, w := range []struct {
			c    Ctx
			x, y Dec
		}{
			{Ctx{P: 12, Emin: -100000, Emax: 100000, R: "down"}, finDec(false, big.NewInt(1000000000267), -12), finDec(true, big.NewInt(2), 12)},
			{Ctx{P: 14, Emin: -100000, Emax: 100000, R: "05up"}, finDec(false, big.NewInt(100000000000954), -14), finDec(false, big.NewInt(1), 15)},
		} {
			ev := mkA("pow", w.c, w.x, w.y, 0, "", fresh)
			ev.H = lnHint(w.x, w.c.P)
			g.emit(ev, "pow/witness")
		}
		// just below the recorded cut-off band of Exp (|x| > 23000): the results are in range and must be delivered
		for _, v := range []int64{22950, 22990, 22999, -22990, -22978} {
			x := finDec(v < 0, big.NewInt(v).Abs(big.NewInt(v)), 0)
			g.emit(mkA("exp", Ctx{P: []int{9, 12}[g.R.Intn(2)], Emin: -100000, Emax: 100000, R: modeNames[g.R.Intn(8)]}, x, x, 0, "", fresh), "exp/edge")
		}
		// precisions 52..60 (the constant tables of ln 10 and 1/ln 10 are used to their full length): operands that need a
		// range reduction by a power of ten
		for i := 0; i < g.pick(12, 200); i++ {
			c := Ctx{P: g.R.between(52, 60), Emin: -100000, Emax: 100000, R: modeNames[g.R.Intn(8)]}
			x := finDec(false, g.R.digits(g.R.between(1, 9)), g.R.between(-40, 40))
			op := []string{"ln", "log10"}[i%2]
			g.emit(mkA(op, c, x, x, 0, "", fresh), op+"/p52-60")
		}
		n := g.pick(1800, 45000)
		for i := 0; i < n; i++ {
			p := g.R.between(1, 12)
			if g.R.Intn(8) == 0 {
				p = g.R.between(13, 34)
			}
			if g.thorough() && g.R.Intn(12) == 0 {
				p = g.R.between(35, 60)
			}
			c := Ctx{P: p, Emin: -100000, Emax: 100000, R: modeNames[g.R.Intn(8)]}
			if g.R.Intn(4) == 0 {
				c.Emin, c.Emax = -g.R.between(20, 400), g.R.between(p+20, 400)
			}
			nd := g.R.between(1, 3*p)
			if g.R.Intn(3) == 0 {
				nd = g.R.between(1, p)
			}
			x := finDec(false, g.R.digits(nd), 0)
			if i%6 == 5 && p <= 10 {
				// hard cases: the exact result lies a few thousandths of a unit off a representable number (off a tie for the
				// nearest modes), so a one-sided bias of the working arithmetic is enough to land on the wrong side.
				// The argument is built with float64 arithmetic (17 digits: far finer than the offset); no expected value is used.
				N := float64(g.R.between(1, 999999999))
				for N >= math.Pow(10, float64(p)) {
					N = math.Floor(N / 10)
				}
				if N < math.Pow(10, float64(p-1)) && p > 1 {
					N += math.Pow(10, float64(p-1))
				}
				t := []float64{0.004, -0.004, 0.02, -0.02, 0.504, 0.496}[g.R.Intn(6)]
				sc := float64(g.R.between(-3, 3))
				target := (N + t) * math.Pow(10, sc-float64(p-1)) // a p-digit number with 1 <= |.| < 10, scaled by 10^sc, plus t units
				var arg float64
				op := []string{"exp", "ln", "log10"}[g.R.Intn(3)]
				switch op {
				case "exp":
					arg = math.Log(target)
					if g.R.bool() && target > 1 { // negative arguments: e^-a = 1/target is not special, keep both signs in play
						arg = -arg
					}
				case "ln":
					arg = math.Exp(target)
				default:
					arg = math.Pow(10, target)
				}
				if d, ok := decOfFloat(arg); ok {
					g.emit(mkA(op, c, d, d, 0, "", fresh), op+"/hard")
					continue
				}
			}
			switch g.R.Intn(4) {
			case 0: // exp
				x.N = g.R.bool()
				x.E = -nd + g.R.between(-3, 3) // |x| around 0.001 .. 1000
				if g.R.Intn(5) == 0 {
					x.E = -nd - g.R.between(3, 40) // tiny
				}
				if g.R.Intn(6) == 0 {
					// large: |x| up to 2*10^4 (e^x up to 10^8685). Beyond 23*1000 the recorded finding applies
					// (fixed witnesses above); beyond ln(10)*100001 the overflow is real.
					x.E = -nd + g.R.between(3, 4)
					if g.R.Intn(3) == 0 {
						x.E = -nd + g.R.between(7, 8) // |x| in [10^6, 10^8): true overflow / underflow for every context (ln(10)*100001 < 2.4*10^5)
					}
					b := bigOfLimbs(x.C)
					if x.E == -nd+4 && b.String()[0] >= '2' {
						x.E--
					}
				}
				g.emit(mkA("exp", c, x, x, 0, "", fresh), "exp")
			case 1: // ln
				x.E = -nd + g.R.between(-12, 12)
				if g.R.Intn(3) == 0 { // near 1
					k := g.R.between(1, p+4)
					b := new(big.Int).Exp(big.NewInt(10), big.NewInt(int64(k)), nil)
					b.Add(b, big.NewInt(int64(g.R.between(-9, 9))))
					x = finDec(false, b, -k)
				}
				if g.R.Intn(4) == 0 { // just outside the power-series range: adding k*ln(10) back cancels leading digits (1.1 < x < 1.3)
					s := []string{"11", "110", "12", "1100", "115"}[g.R.Intn(5)]
					for k := g.R.between(1, p+3); k > 0; k-- {
						s += string(rune('0' + g.R.Intn(10)))
					}
					b, _ := new(big.Int).SetString(s, 10)
					x = finDec(false, b, -(len(s) - 1))
					if g.R.Intn(3) == 0 { // low precision, where one unit is large
						c.P = g.R.between(1, 5)
					}
				}
				g.emit(mkA("ln", c, x, x, 0, "", fresh), "ln")
			case 2: // log10
				x.E = -nd + g.R.between(-12, 12)
				if g.R.Intn(3) == 0 {
					k := g.R.between(1, p+4)
					b := new(big.Int).Exp(big.NewInt(10), big.NewInt(int64(k)), nil)
					b.Add(b, big.NewInt(int64(g.R.between(-9, 9))))
					x = finDec(false, b, -k+g.R.between(-3, 3))
				}
				if g.R.Intn(8) == 0 {
					x = finDec(false, big.NewInt(1), g.R.between(-30, 30)) // exact powers of ten
				}
				g.emit(mkA("log10", c, x, x, 0, "", fresh), "log10")
			default: // pow
				x.E = -nd + g.R.between(-2, 3)
				var y Dec
				if g.R.bool() { // integer exponent
					y = finDec(g.R.Intn(3) == 0, big.NewInt(int64(g.R.between(0, 40))), 0)
					if g.R.Intn(4) == 0 {
						y = finDec(y.N, big.NewInt(int64(g.R.between(1, 4))), 1) // 10, 20, ... as 1E1
					}
					x.N = g.R.Intn(3) == 0
					if len(x.C) > 4 {
						x.C = x.C[len(x.C)-4:]
					}
				} else {
					y = finDec(g.R.Intn(3) == 0, g.R.digits(g.R.between(1, 6)), -g.R.between(1, 5))
				}
				bigInt := false
				if g.R.Intn(6) == 0 { // x close to 1 raised to a large integer power written in E-notation
					k := g.R.between(4, p+3)
					b := new(big.Int).Exp(big.NewInt(10), big.NewInt(int64(k)), nil)
					b.Add(b, big.NewInt(int64(g.R.between(1, 999))))
					x = finDec(false, b, -k)
					j := g.R.between(k-2, k+1)
					if j > 5 { // apd provisions guard digits for exponents of at most 6 digits (recorded finding beyond that)
						j = 5
					}
					y = finDec(g.R.Intn(4) == 0, big.NewInt(int64(g.R.between(1, 9))), j)
					bigInt = true
				}
				ev := mkA("pow", c, x, y, 0, "", fresh)
				if (!(y.E >= 0) || bigInt) && x.F == 0 && !x.N && len(x.C) > 0 {
					ev.H = lnHint(x, p)
				}
				g.emit(ev, "pow")
			}
		}
	}
}

// decOfFloat: the 17-significant-digit decimal expansion of a finite float64 as a case operand.
func decOfFloat(f float64) (Dec, bool) {
	if f == 0 || math.IsInf(f, 0) || math.IsNaN(f) {
		return Dec{}, false
	}
	s := strconv.FormatFloat(math.Abs(f), 'e', 16, 64) // d.dddddddddddddddde+XX
	mant, exps, _ := strings.Cut(s, "e")
	e, err := strconv.Atoi(exps)
	if err != nil {
		return Dec{}, false
	}
	digs := strings.Replace(mant, ".", "", 1)
	b, ok := new(big.Int).SetString(digs, 10)
	if !ok {
		return Dec{}, false
	}
	return finDec(f < 0, b, e-(len(digs)-1)), true
}
