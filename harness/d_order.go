package main

import (
	"encoding/json"
	"math/big"

	"github.com/cockroachdb/apd/v3"
)

// OEv: one comparison of two decimals by Decimal.Cmp, Decimal.CmpTotal and Context.Cmp.
type OEv struct {
	K     string `json:"k"` // "o"
	X     Dec    `json:"x"`
	Y     Dec    `json:"y"`
	Cmp   int    `json:"cmp"` // Decimal.Cmp (99 when an operand is NaN: undefined)
	Tot   int    `json:"tot"` // Decimal.CmpTotal
	CRes  Dec    `json:"cres"`
	CFl   int    `json:"cfl"`
	CErr  string `json:"cerr"`
	XA    Dec    `json:"xa"`
	YA    Dec    `json:"ya"`
	Panic string `json:"panic"`
	Key   string `json:"key"`
}

// OMEv: all pairwise results over a small list of values (relational check of
// antisymmetry / transitivity on what the code returned).
type OMEv struct {
	K    string  `json:"k"` // "om"
	Vals []Dec   `json:"vals"`
	Tot  [][]int `json:"tot"`
	Cmp  [][]int `json:"cmp"`
	Key  string  `json:"key"`
}

func isNaNDec(d Dec) bool { return d.F == 2 || d.F == 3 }

func mkO(xj, yj Dec) (ev OEv) {
	ev = OEv{K: "o", X: xj, Y: yj, Cmp: 99, Key: "cmp|" + decStr(xj) + "|" + decStr(yj)}
	defer func() {
		if r := recover(); r != nil {
			ev.Panic = "panic"
			ev.CRes, ev.XA, ev.YA = none, none, none
		}
	}()
	x, y := decDec(xj), decDec(yj)
	if !isNaNDec(xj) && !isNaNDec(yj) {
		ev.Cmp = x.Cmp(y)
	}
	ev.Tot = x.CmpTotal(y)
	var d apd.Decimal
	fl, err := apd.BaseContext.Cmp(&d, x, y)
	ev.CRes, ev.CFl, ev.CErr = encDec(&d), int(fl), errStr(err)
	ev.XA, ev.YA = encDec(x), encDec(y)
	return ev
}

func mkOM(vals []Dec) OMEv {
	ev := OMEv{K: "om", Vals: vals}
	for _, a := range vals {
		var rt, rc []int
		for _, b := range vals {
			x, y := decDec(a), decDec(b)
			rt = append(rt, x.CmpTotal(y))
			if isNaNDec(a) || isNaNDec(b) {
				rc = append(rc, 99)
			} else {
				rc = append(rc, x.Cmp(y))
			}
		}
		ev.Tot = append(ev.Tot, rt)
		ev.Cmp = append(ev.Cmp, rc)
	}
	b, _ := json.Marshal(vals)
	ev.Key = "om" + string(b)
	return ev
}

func orderVals() []Dec {
	var v []Dec
	v = append(v, specialDecs...)
	v = append(v, dirtySpecials()...)
	for _, n := range []bool{false, true} {
		for _, e := range []int{-3, 0, 2} {
			v = append(v, finDec(n, bigInt(0), e))
		}
		for _, ce := range [][2]int64{{1, 0}, {10, -1}, {100, -2}, {1, 2}, {100, 0}, {12, 0}, {120, -1}, {123, -2}, {99, 0}, {999, -1},
			{1000, -1}, {9999, -2}, {1, -3}, {5, -1}, {49, -2}, {50, -2}, {1, 5}, {100000, 0}} {
			v = append(v, finDec(n, bigInt(ce[0]), int(ce[1])))
		}
	}
	// the same small values and a zero in heap-backed storage
	for _, ce := range [][2]int64{{0, 0}, {0, -3}, {1, 0}, {100, -2}, {12, 0}} {
		for _, n := range []bool{false, true} {
			d := finDec(n, bigInt(ce[0]), int(ce[1]))
			d.Hp = true
			v = append(v, d)
		}
	}
	return v
}

func init() {
	reexec["o"] = func(line []byte) interface{} {
		var ev OEv
		if err := json.Unmarshal(line, &ev); err != nil {
			panic(err)
		}
		return mkO(ev.X, ev.Y)
	}
	reexec["om"] = func(line []byte) interface{} {
		var ev OMEv
		if err := json.Unmarshal(line, &ev); err != nil {
			panic(err)
		}
		return mkOM(ev.Vals)
	}
	drivers["order"] = func(g *G) {
		vals := orderVals()
		for _, x := range vals {
			for _, y := range vals {
				g.emit(mkO(x, y), "pairs")
			}
		}
		// every decimal-digit boundary up to 10^420 (1396 bits), written out in full, against the same power of ten
		// written with an exponent: digit-count estimates from the bit length are tightest exactly there
		for k := 1; k <= 420; k++ {
			pw := new(big.Int).Exp(big.NewInt(10), big.NewInt(int64(k)), nil)
			for dl := int64(-1); dl <= 1; dl++ {
				x := finDec(k%2 == 0, new(big.Int).Add(pw, big.NewInt(dl)), 0)
				y := finDec(k%2 == 0, big.NewInt(1), k)
				g.emit(mkO(x, y), "pow10")
				if k%7 == 0 {
					g.emit(mkO(y, x), "pow10")
				}
			}
		}
		// equal adjusted exponents with the exponents more than 100000 apart: only a coefficient of 100000+ digits gets there
		// (thorough tier only: each of them keeps one validator busy for minutes)
		for _, dl := range []int64{0, 1} {
			if !g.thorough() {
				break
			}
			k := 100002
			c := new(big.Int).Exp(big.NewInt(10), big.NewInt(int64(k)), nil)
			c.Add(c, big.NewInt(dl))
			x := finDec(false, big.NewInt(1), 50001)
			y := finDec(false, c, -50001)
			if dl == 0 {
				g.emit(mkO(x, y), "gap>100000")
			} else {
				g.emit(mkO(y, x), "gap>100000")
			}
		}
		n := g.pick(60000, 1500000)
		for i := 0; i < n; i++ {
			p := g.R.between(1, 40)
			x := g.R.randL(p, 60)
			y := g.R.randL(p, 60)
			switch g.R.Intn(7) {
			case 0: // equal exponents
				y.E = x.E
			case 1: // numerically equal, different exponents
				k := g.R.between(1, 30)
				if g.R.Intn(3) == 0 {
					k = g.R.between(100, 400)
				}
				b := bigOfLimbs(x.C)
				for j := 0; j < k; j++ {
					b.Mul(b, bigInt(10))
				}
				y = finDec(x.N, b, x.E-k)
			case 2: // same adjusted exponent, different digit counts: rescaled comparison
				y = g.R.perturb(x)
				k := g.R.between(1, 20)
				if g.R.Intn(3) == 0 {
					k = g.R.between(100, 400) // beyond the 128-entry power-of-ten table
				}
				b := bigOfLimbs(y.C)
				for j := 0; j < k; j++ {
					b.Mul(b, bigInt(10))
				}
				if g.R.bool() {
					b.Add(b, bigInt(int64(g.R.between(0, 2))))
				}
				y = finDec(y.N, b, y.E-k)
			case 3: // same digit-count + exponent sum
				y = g.R.randL(p, 60)
				y.E = len(digitsOf(x)) + x.E - len(digitsOf(y))
			case 4: // large gaps
				x.E = g.R.between(-90000, 90000)
				y.E = g.R.between(-90000, 90000)
			case 5:
				if g.R.bool() {
					y = specialDecs[g.R.Intn(len(specialDecs))]
				} else {
					x = specialDecs[g.R.Intn(len(specialDecs))]
				}
			}
			if g.R.Intn(4) == 0 {
				y.N = x.N
			}
			g.emit(mkO(x, y), "seeded")
			if i%5 == 0 { // the same pair again, swapped: an operand modified by the first comparison shows here
				g.emit(mkO(y, x), "seeded")
			}
		}
		// relational matrices
		m := g.pick(3000, 100000)
		for i := 0; i < m; i++ {
			var vs []Dec
			base := g.R.randL(8, 5)
			for j := 0; j < 6; j++ {
				switch g.R.Intn(5) {
				case 0:
					vs = append(vs, vals[g.R.Intn(len(vals))])
				case 1:
					vs = append(vs, base)
				case 2:
					k := g.R.between(0, 4)
					b := bigOfLimbs(base.C)
					for t := 0; t < k; t++ {
						b.Mul(b, bigInt(10))
					}
					vs = append(vs, finDec(base.N, b, base.E-k))
				case 3:
					vs = append(vs, g.R.perturb(base))
				default:
					vs = append(vs, negDec(base))
				}
			}
			g.emit(mkOM(vs), "matrix")
		}
	}
}

func digitsOf(d Dec) string { return bigOfLimbs(d.C).String() }
