package main

import (
	"encoding/json"
	"fmt"
	"math/big"

	"github.com/cockroachdb/apd/v3"
)

// BReg is the observation of one BigInt register: value (through MathBigInt),
// what Sign() / Cmp(0) / IsUint64 report, and the representation (verif hook).
type BReg struct {
	N    bool  `json:"n"`    // value < 0 (from the copied big.Int)
	C    []int `json:"c"`    // |value|
	Sg   int   `json:"sg"`   // BigInt.Sign()
	C0   int   `json:"c0"`   // BigInt.Cmp(zero)
	Hp   bool  `json:"hp"`   // heap-backed
	Ns   bool  `json:"ns"`   // inline negative sentinel set
	Wz   bool  `json:"wz"`   // all inline words zero
	Fits bool  `json:"fits"` // |value| < 2^128
}

// BRet is a method's non-receiver result.
type BRet struct {
	T string `json:"t"` // n none | i int | b bool | v integer | s bytes
	I int    `json:"i"`
	B bool   `json:"b"`
	V IntV   `json:"v"`
	S []int  `json:"s"`
}

// BStep is one method call on the register file.
type BStep struct {
	M      string `json:"m"`
	Z      int    `json:"z"` // receiver register
	X      int    `json:"x"` // first operand register
	Y      int    `json:"y"` // second operand register
	R      int    `json:"r"` // second receiver (QuoRem, DivMod)
	Aux    int    `json:"aux"`
	AuxV   IntV   `json:"auxv"` // int64 / uint64 argument
	AuxS   []int  `json:"auxs"` // string argument
	Post   []BReg `json:"post"`
	MPost  []IntV `json:"mpost"` // math/big mirror registers after the same call
	Ret    BRet   `json:"ret"`
	MRet   BRet   `json:"mret"`
	Panic  string `json:"panic"`
	MPanic string `json:"mpanic"`
}

// BHEv is a history of method calls on three BigInt registers and their math/big mirrors.
type BHEv struct {
	K     string  `json:"k"` // "bh"
	Key   string  `json:"key"`
	Init  []IntV  `json:"init"`
	Steps []BStep `json:"steps"`
}

const nRegs = 3

var two128 = new(big.Int).Lsh(big.NewInt(1), 128)
var bzero apd.BigInt

func obsReg(b *apd.BigInt) BReg {
	m := b.MathBigInt()
	rp := b.VerifRepr()
	wz := true
	for _, w := range rp.Words {
		if w != 0 {
			wz = false
		}
	}
	return BReg{N: m.Sign() < 0, C: limbsOf(m), Sg: b.Sign(), C0: b.Cmp(&bzero), Hp: !rp.Inline, Ns: rp.NegSentinel, Wz: wz,
		Fits: new(big.Int).Abs(m).Cmp(two128) < 0}
}

func intV(m *big.Int) IntV { return IntV{N: m.Sign() < 0, C: limbsOf(m)} }
func bigOfIntV(v IntV) *big.Int {
	b := bigOfLimbs(v.C)
	if v.N {
		b.Neg(b)
	}
	return b
}

func noRet() BRet          { return BRet{T: "n", V: IntV{C: []int{}}, S: []int{}} }
func iRet(i int) BRet      { r := noRet(); r.T = "i"; r.I = i; return r }
func bRet(b bool) BRet     { r := noRet(); r.T = "b"; r.B = b; return r }
func vRet(m *big.Int) BRet { r := noRet(); r.T = "v"; r.V = intV(m); return r }
func sRet(s string) BRet   { r := noRet(); r.T = "s"; r.S = bytesOf(s); return r }

var (
	bBinary  = []string{"Add", "Sub", "Mul", "Quo", "Rem", "Div", "Mod", "And", "Or", "Xor", "AndNot", "GCD"}
	bUnary   = []string{"Neg", "Abs", "Set", "Not", "Sqrt"}
	bShift   = []string{"Lsh", "Rsh", "SetBit0", "SetBit1", "Exp", "ExpMod"}
	bTwo     = []string{"QuoRem", "DivMod"}
	bSet     = []string{"SetInt64", "SetUint64", "SetString", "SetBytes", "MulRange", "Binomial"}
	bRead    = []string{"Cmp", "CmpAbs", "Sign", "BitLen", "Bit", "TrailingZeroBits", "Int64", "Uint64", "IsInt64", "IsUint64", "String", "Text", "Bytes", "ProbablyPrime", "MarshalText", "MarshalJSON", "Format", "Append", "FillBytes", "GobEncode"}
	bMore    = []string{"SetBitsOf", "ModInverse", "GobRoundTrip", "UnmarshalText", "UnmarshalJSON", "Sscan"}
	bMethods = concat(bBinary, bUnary, bShift, bTwo, bSet, bRead, bMore)
)

func concat(ls ...[]string) []string {
	var out []string
	for _, l := range ls {
		out = append(out, l...)
	}
	return out
}

// applyStep performs the step on the BigInt registers and on the mirrors.
func applyStep(regs []*apd.BigInt, mir []*big.Int, st *BStep) {
	z, x, y, r := regs[st.Z], regs[st.X], regs[st.Y], regs[st.R]
	mz, mx, my, mr := mir[st.Z], mir[st.X], mir[st.Y], mir[st.R]
	st.Ret, st.MRet = noRet(), noRet()
	auxv := bigOfIntV(st.AuxV)
	func() {
		defer func() {
			if e := recover(); e != nil {
				st.MPanic = "panic"
			}
		}()
		switch st.M {
		case "Add":
			mz.Add(mx, my)
		case "Sub":
			mz.Sub(mx, my)
		case "Mul":
			mz.Mul(mx, my)
		case "Quo":
			mz.Quo(mx, my)
		case "Rem":
			mz.Rem(mx, my)
		case "Div":
			mz.Div(mx, my)
		case "Mod":
			mz.Mod(mx, my)
		case "And":
			mz.And(mx, my)
		case "Or":
			mz.Or(mx, my)
		case "Xor":
			mz.Xor(mx, my)
		case "AndNot":
			mz.AndNot(mx, my)
		case "GCD":
			mz.GCD(nil, nil, mx, my)
		case "Neg":
			mz.Neg(mx)
		case "Abs":
			mz.Abs(mx)
		case "Set":
			mz.Set(mx)
		case "Not":
			mz.Not(mx)
		case "Sqrt":
			mz.Sqrt(mx)
		case "Lsh":
			mz.Lsh(mx, uint(st.Aux))
		case "Rsh":
			mz.Rsh(mx, uint(st.Aux))
		case "SetBit0":
			mz.SetBit(mx, st.Aux, 0)
		case "SetBit1":
			mz.SetBit(mx, st.Aux, 1)
		case "Exp":
			mz.Exp(mx, big.NewInt(int64(st.Aux)), nil)
		case "ExpMod": // modulus from register y (0 means none), never the destination itself
			mz.Exp(mx, big.NewInt(int64(st.Aux)), my)
		case "QuoRem":
			mz.QuoRem(mx, my, mr)
		case "DivMod":
			mz.DivMod(mx, my, mr)
		case "SetInt64":
			mz.SetInt64(auxv.Int64())
		case "SetUint64":
			mz.SetUint64(auxv.Uint64())
		case "SetString":
			_, ok := mz.SetString(strOf(st.AuxS), st.Aux)
			st.MRet = bRet(ok)
		case "SetBytes":
			mz.SetBytes([]byte(strOf(st.AuxS)))
		case "MulRange":
			mz.MulRange(int64(st.Aux), int64(st.Aux)+auxv.Int64())
		case "Binomial":
			mz.Binomial(int64(st.Aux)+auxv.Int64(), int64(st.Aux))
		case "Cmp":
			st.MRet = iRet(mz.Cmp(mx))
		case "CmpAbs":
			st.MRet = iRet(mz.CmpAbs(mx))
		case "Sign":
			st.MRet = iRet(mz.Sign())
		case "BitLen":
			st.MRet = iRet(mz.BitLen())
		case "Bit":
			st.MRet = iRet(int(mz.Bit(st.Aux)))
		case "TrailingZeroBits":
			st.MRet = iRet(int(mz.TrailingZeroBits()))
		case "Int64":
			st.MRet = vRet(big.NewInt(mz.Int64()))
		case "Uint64":
			st.MRet = vRet(new(big.Int).SetUint64(mz.Uint64()))
		case "IsInt64":
			st.MRet = bRet(mz.IsInt64())
		case "IsUint64":
			st.MRet = bRet(mz.IsUint64())
		case "String":
			st.MRet = sRet(mz.String())
		case "Text":
			st.MRet = sRet(mz.Text(st.Aux))
		case "Bytes":
			st.MRet = sRet(string(mz.Bytes()))
		case "ProbablyPrime":
			st.MRet = bRet(mz.ProbablyPrime(st.Aux % 4))
		case "MarshalText":
			b, _ := mz.MarshalText()
			st.MRet = sRet(string(b))
		case "MarshalJSON":
			b, _ := mz.MarshalJSON()
			st.MRet = sRet(string(b))
		case "Format":
			st.MRet = sRet(fmt.Sprintf([]string{"%d", "%x", "%+d", "%8d", "%o", "%v", "%s", "%#x", "%-8dX", "%08d"}[st.Aux%10], mz))
		case "Append":
			st.MRet = sRet(string(mz.Append([]byte("x="), []int{2, 8, 10, 16, 36, 62}[st.Aux%6])))
		case "FillBytes":
			st.MRet = sRet(string(mz.FillBytes(make([]byte, (mz.BitLen()+7)/8+st.Aux%3))))
		case "GobEncode":
			b, _ := mz.GobEncode()
			st.MRet = sRet(string(b))
		case "SetBitsOf":
			mz.SetBits(append([]big.Word(nil), mx.Bits()...))
		case "ModInverse":
			st.MRet = bRet(mz.ModInverse(mx, my) != nil)
		case "GobRoundTrip":
			b, _ := mx.GobEncode()
			st.MRet = bRet(mz.GobDecode(b) == nil)
		case "UnmarshalText":
			st.MRet = bRet(mz.UnmarshalText([]byte(mx.String())) == nil)
		case "UnmarshalJSON":
			st.MRet = bRet(mz.UnmarshalJSON([]byte(mx.String())) == nil)
		case "Sscan":
			_, err := fmt.Sscan(mx.String(), mz)
			st.MRet = bRet(err == nil)
		}
	}()
	func() {
		defer func() {
			if e := recover(); e != nil {
				st.Panic = "panic"
			}
		}()
		switch st.M {
		case "Add":
			z.Add(x, y)
		case "Sub":
			z.Sub(x, y)
		case "Mul":
			z.Mul(x, y)
		case "Quo":
			z.Quo(x, y)
		case "Rem":
			z.Rem(x, y)
		case "Div":
			z.Div(x, y)
		case "Mod":
			z.Mod(x, y)
		case "And":
			z.And(x, y)
		case "Or":
			z.Or(x, y)
		case "Xor":
			z.Xor(x, y)
		case "AndNot":
			z.AndNot(x, y)
		case "GCD":
			z.GCD(nil, nil, x, y)
		case "Neg":
			z.Neg(x)
		case "Abs":
			z.Abs(x)
		case "Set":
			z.Set(x)
		case "Not":
			z.Not(x)
		case "Sqrt":
			z.Sqrt(x)
		case "Lsh":
			z.Lsh(x, uint(st.Aux))
		case "Rsh":
			z.Rsh(x, uint(st.Aux))
		case "SetBit0":
			z.SetBit(x, st.Aux, 0)
		case "SetBit1":
			z.SetBit(x, st.Aux, 1)
		case "Exp":
			z.Exp(x, apd.NewBigInt(int64(st.Aux)), nil)
		case "ExpMod":
			z.Exp(x, apd.NewBigInt(int64(st.Aux)), y)
		case "QuoRem":
			z.QuoRem(x, y, r)
		case "DivMod":
			z.DivMod(x, y, r)
		case "SetInt64":
			z.SetInt64(auxv.Int64())
		case "SetUint64":
			z.SetUint64(auxv.Uint64())
		case "SetString":
			_, ok := z.SetString(strOf(st.AuxS), st.Aux)
			st.Ret = bRet(ok)
		case "SetBytes":
			z.SetBytes([]byte(strOf(st.AuxS)))
		case "MulRange":
			z.MulRange(int64(st.Aux), int64(st.Aux)+auxv.Int64())
		case "Binomial":
			z.Binomial(int64(st.Aux)+auxv.Int64(), int64(st.Aux))
		case "Cmp":
			st.Ret = iRet(z.Cmp(x))
		case "CmpAbs":
			st.Ret = iRet(z.CmpAbs(x))
		case "Sign":
			st.Ret = iRet(z.Sign())
		case "BitLen":
			st.Ret = iRet(z.BitLen())
		case "Bit":
			st.Ret = iRet(int(z.Bit(st.Aux)))
		case "TrailingZeroBits":
			st.Ret = iRet(int(z.TrailingZeroBits()))
		case "Int64":
			st.Ret = vRet(big.NewInt(z.Int64()))
		case "Uint64":
			st.Ret = vRet(new(big.Int).SetUint64(z.Uint64()))
		case "IsInt64":
			st.Ret = bRet(z.IsInt64())
		case "IsUint64":
			st.Ret = bRet(z.IsUint64())
		case "String":
			st.Ret = sRet(z.String())
		case "Text":
			st.Ret = sRet(z.Text(st.Aux))
		case "Bytes":
			st.Ret = sRet(string(z.Bytes()))
		case "ProbablyPrime":
			st.Ret = bRet(z.ProbablyPrime(st.Aux % 4))
		case "MarshalText":
			b, _ := z.MarshalText()
			st.Ret = sRet(string(b))
		case "MarshalJSON":
			b, _ := z.MarshalJSON()
			st.Ret = sRet(string(b))
		case "Format":
			st.Ret = sRet(fmt.Sprintf([]string{"%d", "%x", "%+d", "%8d", "%o", "%v", "%s", "%#x", "%-8dX", "%08d"}[st.Aux%10], z))
		case "Append":
			st.Ret = sRet(string(z.Append([]byte("x="), []int{2, 8, 10, 16, 36, 62}[st.Aux%6])))
		case "FillBytes":
			st.Ret = sRet(string(z.FillBytes(make([]byte, (z.BitLen()+7)/8+st.Aux%3))))
		case "GobEncode":
			b, _ := z.GobEncode()
			st.Ret = sRet(string(b))
		case "SetBitsOf":
			z.SetBits(append([]big.Word(nil), x.Bits()...))
		case "ModInverse":
			st.Ret = bRet(z.ModInverse(x, y) != nil)
		case "GobRoundTrip":
			b, _ := x.GobEncode()
			st.Ret = bRet(z.GobDecode(b) == nil)
		case "UnmarshalText":
			st.Ret = bRet(z.UnmarshalText([]byte(x.String())) == nil)
		case "UnmarshalJSON":
			st.Ret = bRet(z.UnmarshalJSON([]byte(x.String())) == nil)
		case "Sscan":
			_, err := fmt.Sscan(x.String(), z)
			st.Ret = bRet(err == nil)
		}
	}()
	if st.M == "SetString" && (!st.Ret.B || !st.MRet.B) {
		// math/big: "if SetString fails, the value of z is undefined": re-define both.
		mz.SetInt64(0)
		z.SetInt64(0)
	}
	st.Post, st.MPost = nil, nil
	for i := range regs {
		st.Post = append(st.Post, obsReg(regs[i]))
		st.MPost = append(st.MPost, intV(mir[i]))
	}
}

// runHistory executes the steps (only the case fields of each step are read).
func runHistory(init []IntV, steps []BStep) BHEv {
	ev := BHEv{K: "bh", Init: init}
	regs := make([]*apd.BigInt, nRegs)
	mir := make([]*big.Int, nRegs)
	for i := range regs {
		mir[i] = bigOfIntV(init[i])
		regs[i] = new(apd.BigInt).SetMathBigInt(mir[i])
	}
	for i := range steps {
		st := BStep{M: steps[i].M, Z: steps[i].Z, X: steps[i].X, Y: steps[i].Y, R: steps[i].R, Aux: steps[i].Aux, AuxV: steps[i].AuxV, AuxS: steps[i].AuxS}
		if st.AuxS == nil {
			st.AuxS = []int{}
		}
		if st.AuxV.C == nil {
			st.AuxV.C = []int{}
		}
		applyStep(regs, mir, &st)
		ev.Steps = append(ev.Steps, st)
		if st.Panic != "" || st.MPanic != "" {
			// after a panic (e.g. division by zero in both) resynchronise: reset the receiver pair
			regs[st.Z] = new(apd.BigInt).SetMathBigInt(mir[st.Z])
			break
		}
	}
	b, _ := json.Marshal([]interface{}{init, caseOnly(ev.Steps)})
	ev.Key = "bh" + string(b)
	if len(ev.Key) > 300 {
		ev.Key = ev.Key[:300] + fmt.Sprintf("...#%d", len(ev.Key))
	}
	return ev
}

func caseOnly(steps []BStep) []interface{} {
	var out []interface{}
	for _, s := range steps {
		out = append(out, []interface{}{s.M, s.Z, s.X, s.Y, s.R, s.Aux, s.AuxV, s.AuxS})
	}
	return out
}

// interesting integer values: dense around 0, +-1, 2^32, 2^63, 2^64, 2^127, 2^128, random up to thousands of bits
func (r *Rand) bigVal() *big.Int {
	var v *big.Int
	switch r.Intn(10) {
	case 0:
		v = big.NewInt(int64(r.Intn(5)))
	case 1, 2:
		v = r.near2()
	case 3:
		v = new(big.Int).SetUint64(r.Uint64() >> uint(r.Intn(64)))
	case 4:
		v = new(big.Int).Rand(r.Rand, new(big.Int).Lsh(big.NewInt(1), uint(r.between(1, 140))))
	case 5:
		v = new(big.Int).Rand(r.Rand, new(big.Int).Lsh(big.NewInt(1), uint(r.between(100, 600))))
	case 6:
		v = new(big.Int).Lsh(big.NewInt(int64(r.between(1, 9))), uint(r.between(0, 200)))
	case 7:
		v = new(big.Int).Exp(big.NewInt(10), big.NewInt(int64(r.between(0, 45))), nil)
	default:
		v = big.NewInt(int64(r.Intn(2000)))
	}
	if r.bool() {
		v.Neg(v)
	}
	return v
}

func (r *Rand) bigStep() BStep {
	st := BStep{M: bMethods[r.Intn(len(bMethods))], Z: r.Intn(nRegs), X: r.Intn(nRegs), Y: r.Intn(nRegs), R: r.Intn(nRegs), AuxV: IntV{C: []int{}}, AuxS: []int{}}
	if r.Intn(3) == 0 { // bias to the arithmetic core
		st.M = bBinary[r.Intn(7)]
	}
	switch st.M {
	case "Lsh", "Rsh", "SetBit0", "SetBit1", "Bit":
		st.Aux = []int{0, 1, 31, 32, 63, 64, 65, 127, 128, 129, r.Intn(300)}[r.Intn(11)]
	case "Exp":
		st.Aux = r.Intn(6)
	case "ExpMod":
		st.Aux = r.Intn(6)
		if st.Z == st.Y {
			st.Z = (st.Y + 1) % nRegs
		}
	case "Text":
		st.Aux = []int{2, 8, 10, 16, 36, 62}[r.Intn(6)]
	case "SetInt64":
		st.AuxV = intV(big.NewInt(int64(r.Uint64()>>uint(r.Intn(64))) * int64(1-2*r.Intn(2))))
		if r.Intn(4) == 0 {
			st.AuxV = intV(big.NewInt([]int64{0, -1, 1, -9223372036854775808, 9223372036854775807}[r.Intn(5)]))
		}
	case "SetUint64":
		st.AuxV = intV(new(big.Int).SetUint64(r.Uint64() >> uint(r.Intn(64))))
	case "SetString":
		st.Aux = []int{10, 10, 16, 0, 2}[r.Intn(5)]
		v := r.bigVal()
		s := v.Text(map[int]int{10: 10, 16: 16, 0: 10, 2: 2}[st.Aux])
		if r.Intn(6) == 0 {
			s = r.mutate(s)
		}
		st.AuxS = bytesOf(s)
	case "SetBytes":
		st.AuxS = bytesOf(string(r.bigVal().Bytes()))
	case "MulRange":
		st.Aux = r.between(-5, 40)
		st.AuxV = intV(big.NewInt(int64(r.Intn(12))))
	case "Binomial":
		st.Aux = r.Intn(30)
		st.AuxV = intV(big.NewInt(int64(r.Intn(40))))
	case "QuoRem", "DivMod":
		// math/big requires distinct receivers for the two results, and does not define
		// the second result aliasing an operand (its own DivMod misbehaves for m == y)
		st.Z, st.R = 0, 1
		st.X, st.Y = []int{0, 2}[r.Intn(2)], []int{0, 2}[r.Intn(2)]
	case "ProbablyPrime", "Format":
		st.Aux = r.Intn(10)
	}
	return st
}

func init() {
	reexec["bh"] = func(line []byte) interface{} {
		var ev BHEv
		if err := json.Unmarshal(line, &ev); err != nil {
			panic(err)
		}
		return runHistory(ev.Init, ev.Steps)
	}
	drivers["bigint"] = func(g *G) {
		// (1) every arithmetic-core method on every pair of boundary values, every alias pattern
		small := []int64{0, 1, -1, 2, -2, 5, -5, 10, -10}
		var bvals []*big.Int
		for _, s := range small {
			bvals = append(bvals, big.NewInt(s))
		}
		for _, k := range []uint{32, 63, 64, 127, 128} {
			p := new(big.Int).Lsh(big.NewInt(1), k)
			for _, d := range []int64{-1, 0, 1} {
				v := new(big.Int).Add(p, big.NewInt(d))
				bvals = append(bvals, v, new(big.Int).Neg(v))
			}
		}
		core := []string{"Add", "Sub", "Mul", "Quo", "Rem", "Div", "Mod", "QuoRem", "DivMod", "Neg", "Abs", "Set", "Cmp", "CmpAbs"}
		pats := [][4]int{{0, 1, 2, 2}, {1, 1, 2, 0}, {2, 1, 2, 0}, {0, 1, 1, 2}, {1, 1, 1, 2}}
		for _, a := range bvals {
			for _, b := range bvals {
				if !g.thorough() && g.R.Intn(3) != 0 {
					continue
				}
				for _, m := range core {
					for _, p := range pats {
						x, y := a, b
						if p[1] == p[2] {
							y = a
						}
						init := []IntV{intV(big.NewInt(7)), intV(x), intV(y)}
						if p[1] == p[2] && p[1] == 1 {
							init = []IntV{intV(big.NewInt(7)), intV(x), intV(big.NewInt(-3))}
						}
						st := BStep{M: m, Z: p[0], X: p[1], Y: p[2], R: p[3]}
						if (m == "QuoRem" || m == "DivMod") && (st.R == st.Z || st.R == st.X || st.R == st.Y) {
							continue
						}
						g.emit(runHistory(init, []BStep{st, {M: "Sign", Z: p[0]}, {M: "Cmp", Z: p[0], X: 1}}), "edge/"+m)
					}
				}
			}
		}
		// (1b) the bit-level methods on every boundary value (and the multiples of 2^64 below 2^128, whose low word is zero)
		// at every boundary index, in place and into another register
		bitVals := append([]*big.Int{}, bvals...)
		for _, k := range []int64{2, 3, 5} {
			v := new(big.Int).Lsh(big.NewInt(k), 64)
			bitVals = append(bitVals, v, new(big.Int).Neg(v))
		}
		for _, v := range bitVals {
			for _, idx := range []int{0, 1, 31, 32, 63, 64, 65, 66, 126, 127, 128, 129} {
				for _, m := range []string{"Bit", "SetBit0", "SetBit1", "Lsh", "Rsh"} {
					for _, z := range []int{0, 1} {
						if m == "Bit" && z == 0 {
							continue
						}
						if (m == "Lsh") && idx > 66 && !g.thorough() {
							continue
						}
						init := []IntV{intV(big.NewInt(7)), intV(v), intV(big.NewInt(-3))}
						st := BStep{M: m, Z: z, X: 1, Y: 2, R: 2, Aux: idx, AuxV: IntV{C: []int{}}, AuxS: []int{}}
						g.emit(runHistory(init, []BStep{st, {M: "Sign", Z: z, AuxV: IntV{C: []int{}}, AuxS: []int{}}, {M: "TrailingZeroBits", Z: z, AuxV: IntV{C: []int{}}, AuxS: []int{}}}), "edge/"+m)
					}
				}
			}
		}
		// (2) seeded histories: inline -> heap -> inline transitions on the same receiver
		n := g.pick(6000, 200000)
		for i := 0; i < n; i++ {
			init := []IntV{intV(g.R.bigVal()), intV(g.R.bigVal()), intV(g.R.bigVal())}
			steps := make([]BStep, g.R.between(4, 30))
			for j := range steps {
				steps[j] = g.R.bigStep()
			}
			g.emit(runHistory(init, steps), "history")
		}
	}
}
