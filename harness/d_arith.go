package main

import (
	"encoding/json"
	"fmt"
	"os"
	"strconv"
	"time"

	"github.com/cockroachdb/apd/v3"
)

// AEv is one Context call: the case (op, ctx, operands, target exponent, alias
// pattern, destination pre-state) and the observed outcome.
type AEv struct {
	K   string `json:"k"` // "a"
	Op  string `json:"op"`
	Ctx Ctx    `json:"ctx"`
	X   Dec    `json:"x"`
	Y   Dec    `json:"y"`
	Q   int    `json:"q"`
	Al  string `json:"al"`  // "" d,x,y distinct | "dx" | "dy" | "xy" | "dxy"
	Pre Dec    `json:"pre"` // destination contents before the call (f = -1: a fresh zero value)
	H   Dec    `json:"h"`   // Pow only: an UNTRUSTED approximation of ln|x| with ulp error bound (f = -1: none); verified by the spec
	AOut
}

// AOut is what was observed.
type AOut struct {
	Res   Dec    `json:"res"`   // destination after the call
	Fl    int    `json:"fl"`    // returned Condition
	Err   string `json:"err"`   // error text ("" = nil)
	Cnt   int    `json:"cnt"`   // Reduce's count
	XA    Dec    `json:"xa"`    // first operand after the call
	YA    Dec    `json:"ya"`    // second operand after the call
	Panic string `json:"panic"` // recovered panic ("" = none)
	CtxA  Ctx    `json:"ctxa"`  // the Context after the call
}

var fresh = Dec{F: -1, C: []int{}}

var binOps = map[string]bool{"add": true, "sub": true, "mul": true, "quo": true, "quoint": true, "rem": true, "cmp": true, "pow": true}

// runA executes one case on the real code.
func runA(op string, cj Ctx, xj, yj Dec, q int, al string, pre Dec) (out AOut) {
	c := decCtx(cj)
	x := decDec(xj)
	y := decDec(yj)
	var d *apd.Decimal
	if pre.F >= 0 {
		d = decDec(pre)
	} else {
		d = new(apd.Decimal)
	}
	switch al {
	case "dx":
		d = x
	case "dy":
		d = y
	case "xy":
		y = x
	case "dxy":
		d = x
		y = x
	}
	defer func() {
		if r := recover(); r != nil {
			out.Panic = fmt.Sprint(r)
			out.Res = Dec{F: -1, C: []int{}}
			out.XA, out.YA = out.Res, out.Res
			out.CtxA = cj
		}
	}()
	var fl apd.Condition
	var err error
	switch op {
	case "add":
		fl, err = c.Add(d, x, y)
	case "sub":
		fl, err = c.Sub(d, x, y)
	case "mul":
		fl, err = c.Mul(d, x, y)
	case "quo":
		fl, err = c.Quo(d, x, y)
	case "quoint":
		fl, err = c.QuoInteger(d, x, y)
	case "rem":
		fl, err = c.Rem(d, x, y)
	case "cmp":
		fl, err = c.Cmp(d, x, y)
	case "pow":
		fl, err = c.Pow(d, x, y)
	case "abs":
		fl, err = c.Abs(d, x)
	case "neg":
		fl, err = c.Neg(d, x)
	case "round":
		fl, err = c.Round(d, x)
	case "quantize":
		fl, err = c.Quantize(d, x, int32(q))
	case "tointx":
		fl, err = c.RoundToIntegralExact(d, x)
	case "tointv":
		fl, err = c.RoundToIntegralValue(d, x)
	case "ceil":
		fl, err = c.Ceil(d, x)
	case "floor":
		fl, err = c.Floor(d, x)
	case "reduce":
		out.Cnt, fl, err = c.Reduce(d, x)
	case "sqrt":
		fl, err = c.Sqrt(d, x)
	case "cbrt":
		fl, err = c.Cbrt(d, x)
	case "exp":
		fl, err = c.Exp(d, x)
	case "ln":
		fl, err = c.Ln(d, x)
	case "log10":
		fl, err = c.Log10(d, x)
	// Decimal methods (no Context involved)
	case "dneg":
		d.Neg(x)
	case "dabs":
		d.Abs(x)
	case "dset":
		d.Set(x)
	case "dreduce":
		_, out.Cnt = d.Reduce(x)
	default:
		panic("unknown op " + op)
	}
	out.Res = encDec(d)
	out.Fl = int(fl)
	out.Err = errStr(err)
	out.XA = encDec(x)
	out.YA = encDec(y)
	out.CtxA = encCtx(c)
	return out
}

func mkA(op string, c Ctx, x, y Dec, q int, al string, pre Dec) AEv {
	if !binOps[op] {
		y = x
	}
	return AEv{K: "a", Op: op, Ctx: c, X: x, Y: y, Q: q, Al: al, Pre: pre, H: none, AOut: runAGuard(op, c, x, y, q, al, pre)}
}

// runAGuard runs the call under a watchdog: a call that does not return within
// the limit is recorded as panic="timeout" (no spec action admits it) and its
// goroutine is abandoned. After maxLeaks such calls the driver stops early.
func runAGuard(op string, c Ctx, x, y Dec, q int, al string, pre Dec) AOut {
	if leaks >= maxLeaks {
		return AOut{Panic: "skipped-after-timeouts", Res: none, XA: none, YA: none, CtxA: c}
	}
	ch := make(chan AOut, 1)
	go func() { ch <- runA(op, c, x, y, q, al, pre) }()
	t := time.NewTimer(callLimit())
	defer t.Stop()
	select {
	case o := <-ch:
		return o
	case <-t.C:
		leaks++
		return AOut{Panic: "timeout", Res: none, XA: none, YA: none, CtxA: c}
	}
}

var none = Dec{F: -1, C: []int{}}
var leaks = 0

const maxLeaks = 3

func callLimit() time.Duration {
	if s := os.Getenv("VERIF_CALL_LIMIT_S"); s != "" {
		if n, err := strconv.Atoi(s); err == nil && n > 0 {
			return time.Duration(n) * time.Second
		}
	}
	return 20 * time.Second
}

func init() {
	reexec["a"] = func(line []byte) interface{} {
		var ev AEv
		if err := json.Unmarshal(line, &ev); err != nil {
			panic(err)
		}
		out := mkA(ev.Op, ev.Ctx, ev.X, ev.Y, ev.Q, ev.Al, ev.Pre)
		if ev.H.F >= 0 {
			out.H = lnHint(ev.X, ev.Ctx.P)
		}
		return out
	}
	drivers["arithS"] = func(g *G) { arithS(g, []string{"add", "sub", "mul", "quo"}, []string{"abs", "neg", "round"}, false) }
	drivers["arithL"] = func(g *G) { arithL(g, []string{"add", "sub", "mul", "quo", "abs", "neg", "round"}) }
	drivers["intS"] = func(g *G) {
		arithS(g, []string{"quoint", "rem"}, []string{"quantize", "tointx", "tointv", "ceil", "floor", "reduce"}, true)
	}
	drivers["reduceL"] = func(g *G) {
		arithS(g, nil, []string{"reduce", "dreduce"}, true)
		arithLInt(g, []string{"reduce", "dreduce"})
		// precision 0 (rounding disabled): exact
		for i := 0; i < g.pick(3000, 100000); i++ {
			c := Ctx{P: 0, Emin: -100000, Emax: 100000, R: modeNames[g.R.Intn(8)]}
			x := g.R.randL(20, 50)
			if g.R.bool() {
				k := g.R.between(1, 25)
				b := bigOfLimbs(x.C)
				for j := 0; j < k; j++ {
					b.Mul(b, bigInt(10))
				}
				x = finDec(x.N, b, x.E)
			}
			g.emit(mkA("reduce", c, x, x, 0, "", fresh), "reduce-p0")
		}
	}
	// tableedge: operations whose internal power of ten sits at the end of the 128-entry table (exponent gaps and
	// discarded / padded digit counts 126..130), each twice and interleaved with unrelated ones: a call that writes
	// to the shared table shows in the second result and in the shared-state digest of the run.
	drivers["tableedge"] = func(g *G) {
		wide := func(p int, r string) Ctx { return Ctx{P: p, Emin: -100000, Emax: 100000, R: r} }
		for rep := 0; rep < 2; rep++ {
			for gap := 126; gap <= 130; gap++ {
				for i := 0; i < g.pick(6, 40); i++ {
					m := modeNames[g.R.Intn(8)]
					p := g.R.between(1, 12)
					// equal adjusted exponents, exponents gap apart: the aligned comparison multiplies by 10^gap
					hd := g.R.digits(g.R.between(1, 5))
					long := new(bigIntT).Mul(hd, new(bigIntT).Exp(bigInt(10), bigInt(int64(gap)), nil))
					long.Add(long, bigInt(int64(g.R.between(0, 2))))
					x := finDec(g.R.bool(), long, 0)
					y := finDec(x.N, new(bigIntT).Add(hd, bigInt(int64(g.R.between(-1, 1)))), gap)
					for _, op := range []string{"cmp", "add", "sub", "quoint", "rem"} {
						g.emit(mkA(op, wide(p+gap+8, m), x, y, 0, "", fresh), "gap/"+op)
						g.emit(mkA(op, wide(p+gap+8, m), y, x, 0, "", fresh), "gap/"+op)
					}
					// rounding that discards exactly gap digits (its half-way comparison aligns by gap-1 .. gap+1)
					z := finDec(g.R.bool(), g.R.digits(p+gap), g.R.between(-3, 3))
					g.emit(mkA("round", wide(p, m), z, z, 0, "", fresh), "drop/round")
					g.emit(mkA("quantize", wide(p+3, m), z, z, z.E+gap, "", fresh), "drop/quantize")
					g.emit(mkA("quo", wide(p, m), z, finDec(false, bigInt(3), 0), 0, "", fresh), "drop/quo")
					// a quotient at a precision beyond the table from a dividend more than 128 digits longer than the divisor
					pq := []int{130, 140, 200}[g.R.Intn(3)]
					dv := finDec(g.R.bool(), g.R.digits(g.R.between(1, 3)), g.R.between(-3, 3))
					dd := finDec(g.R.bool(), g.R.digits(len(bigOfLimbs(dv.C).String())+gap+g.R.between(0, 8)), g.R.between(-3, 3))
					g.emit(mkA("quo", wide(pq, m), dd, dv, 0, "", fresh), "long/quo")
					// a product of two long factors (more than 512 bits) whose adjusted exponent is exactly MinExponent, or next to it
					nx, ny := g.R.between(80, 110), g.R.between(80, 110)
					fx, fy := g.R.digits(nx), g.R.digits(ny)
					if g.R.bool() { // all nines: the product has nx+ny digits
						fx = new(bigIntT).Sub(new(bigIntT).Exp(bigInt(10), bigInt(int64(nx)), nil), bigInt(1))
						fy = new(bigIntT).Sub(new(bigIntT).Exp(bigInt(10), bigInt(int64(ny)), nil), bigInt(1))
					}
					emin := -g.R.between(10, 60)
					ex := g.R.between(-200, -100)
					// adjusted exponent of the product is ex+ey+nx+ny-1 or -2: aim at emin
					ey := emin - ex - nx - ny + 1 + g.R.between(-1, 1)
					cm := Ctx{P: []int{20, p, 300}[g.R.Intn(3)], Emin: emin, Emax: 1000, R: m}
					g.emit(mkA("mul", cm, finDec(g.R.bool(), fx, ex), finDec(g.R.bool(), fy, ey), 0, "", fresh), "long/mul")
					// padding by gap digits
					s := finDec(g.R.bool(), g.R.digits(g.R.between(1, 4)), 0)
					g.emit(mkA("quantize", wide(gap+8, m), s, s, -gap, "", fresh), "pad/quantize")
				}
			}
		}
	}
	drivers["intL"] = func(g *G) {
		arithLInt(g, []string{"quoint", "rem", "quantize", "tointx", "tointv", "ceil", "floor", "reduce"})
	}
}

// arithS walks the boundary domain S exported by the specification. The full
// product (value pairs x contexts x ops) is visited in a seeded pseudo-random
// order and cut at the tier's budget; the thorough tier takes it all for the
// quick sub-domain and a 20x larger cut of the full one.
func arithS(g *G, bin, un []string, qs bool) {
	vq, cq := loadDecs("domainSq.ndjson"), loadCtxs("ctxSq.ndjson")
	vs, cs := loadDecs("domainS.ndjson"), loadCtxs("ctxS.ndjson")
	// unary: exhaustive over S x ctxS in both tiers
	for _, c := range cs {
		for _, x := range vs {
			for _, op := range un {
				if op == "quantize" {
					for q := -5; q <= 5; q++ {
						if !g.thorough() && (g.R.Intn(3) != 0) {
							continue
						}
						g.emit(mkA(op, c, x, x, q, "", fresh), op)
						aliased(g, op, c, x, x, q)
					}
					continue
				}
				if !g.thorough() && len(un) > 3 && g.R.Intn(2) != 0 {
					continue
				}
				g.emit(mkA(op, c, x, x, 0, "", fresh), op)
				aliased(g, op, c, x, x, 0)
				if op == "dreduce" || op == "reduce" { // into a destination that held a non-finite value
					g.emit(mkA(op, c, x, x, 0, "", specialDecs[g.R.Intn(len(specialDecs))]), op+"/pre")
				}
				if (op == "tointv" || op == "tointx" || op == "quantize") && g.R.Intn(4) == 0 {
					ct := c
					ct.T = 16 | 64 // Inexact | Rounded trapped
					g.emit(mkA(op, ct, x, x, 0, "", fresh), op+"/trapped")
				}
			}
		}
	}
	// binary: seeded cut of Sq x Sq x ctxSq, then of S x S x ctxS
	nq := g.pick(60000, 0)
	if g.thorough() {
		nq = len(vq) * len(vq) * len(cq)
	}
	total := len(vq) * len(vq) * len(cq)
	walk(g.R, total, nq, func(i int) {
		c := cq[i%len(cq)]
		x := vq[(i/len(cq))%len(vq)]
		y := vq[i/(len(cq)*len(vq))]
		for _, op := range bin {
			g.emit(mkA(op, c, x, y, 0, "", fresh), op)
			aliased(g, op, c, x, y, 0)
		}
	})
	n := g.pick(40000, 500000)
	total = len(vs) * len(vs) * len(cs)
	walk(g.R, total, n, func(i int) {
		c := cs[i%len(cs)]
		x := vs[(i/len(cs))%len(vs)]
		y := vs[i/(len(cs)*len(vs))]
		for _, op := range bin {
			g.emit(mkA(op, c, x, y, 0, "", fresh), op)
		}
	})
}

// walk visits n of the indices 0..total-1 (all of them, in order, if n >= total)
// along a seeded full-period affine sequence, so that cuts of any length are
// spread over the whole product and never repeat an index.
func walk(r *Rand, total, n int, f func(i int)) {
	if n >= total {
		for i := 0; i < total; i++ {
			f(i)
		}
		return
	}
	// stride coprime to total
	stride := r.Intn(total-1) + 1
	for gcd(stride, total) != 1 {
		stride++
	}
	i := r.Intn(total)
	for k := 0; k < n; k++ {
		f(i)
		i = (i + stride) % total
	}
}

func gcd(a, b int) int {
	for b != 0 {
		a, b = b, a%b
	}
	return a
}

// arithL: the large seeded domain.
func arithL(g *G, ops []string) {
	n := g.pick(9000, 250000)
	for i := 0; i < n; i++ {
		c := g.R.randCtxL(40)
		span := 30
		if c.Emax > 1000 {
			span = 2000
		}
		x := g.R.randL(c.P, span)
		y := g.R.randL(c.P, span)
		switch g.R.Intn(6) {
		case 0: // near-cancellation
			y = x
			y.N = !x.N
			if g.R.bool() {
				y = g.R.perturb(x)
				y.N = !x.N
			}
		case 1: // close exponents so that digits interact
			y.E = x.E + g.R.between(-c.P-2, c.P+2)
		case 2: // results around the bottom of the range
			x.E = c.Emin - g.R.between(0, c.P+3)
			y.E = x.E + g.R.between(-3, 3)
			if c.Emin < -50000 {
				x.E, y.E = g.R.between(-40, 40), g.R.between(-40, 40)
			}
		case 3: // results around the top of the range
			x.E = c.Emax - g.R.between(0, c.P+3)
			y.E = g.R.between(-3, 3)
			if c.Emax > 50000 {
				x.E = g.R.between(-40, 40)
			}
		}
		if g.R.Intn(40) == 0 {
			x = specialDecs[g.R.Intn(len(specialDecs))]
		}
		if g.R.Intn(40) == 0 {
			y = specialDecs[g.R.Intn(len(specialDecs))]
		}
		for _, op := range ops {
			q := 0
			if op == "quantize" {
				q = x.E + g.R.between(-c.P-3, c.P+6)
				if g.R.Intn(5) == 0 {
					q = x.E + g.R.between(-60, 60)
				}
			}
			g.emit(mkA(op, c, x, y, q, "", fresh), op)
			aliased(g, op, c, x, y, q)
		}
	}
}

// aliased emits, for one case in eight, the same call with the destination being the first
// or the second operand: the outcome is judged by the same specification.
func aliased(g *G, op string, c Ctx, x, y Dec, q int) {
	if g.R.Intn(8) != 0 {
		return
	}
	al := "dx"
	if binOps[op] && g.R.bool() {
		al = "dy"
	}
	if binOps[op] && g.R.Intn(3) == 0 { // the same object as both operands (and possibly as the destination too)
		y = x
		al = []string{"xy", "dxy"}[g.R.Intn(2)]
	}
	g.emit(mkA(op, c, x, y, q, al, fresh), op+"/"+al)
}

// perturb returns x with its coefficient changed by +-1 or +-1 in a high digit.
func (r *Rand) perturb(x Dec) Dec {
	b := bigOfLimbs(x.C)
	d := int64(1)
	if r.bool() {
		d = -1
	}
	b.Add(b, bigInt(d))
	if b.Sign() < 0 {
		b.Neg(b)
	}
	return finDec(x.N, b, x.E)
}

// arithLInt: the large seeded domain for the integer-valued operations. The
// exponent gap between the operands (which becomes digits of the quotient or
// of the aligned operands) is kept within a few times the precision, with a
// tail up to 150.
func arithLInt(g *G, ops []string) {
	n := g.pick(6000, 150000)
	for i := 0; i < n; i++ {
		c := g.R.randCtxL(30)
		if i%6 == 4 { // trapped: the result is delivered all the same (NaN for an impossible division)
			c.T = []int{1967, 512, 1024 | 512, 16 | 64}[g.R.Intn(4)]
		}
		x := g.R.randL(c.P, 20)
		y := g.R.randL(c.P, 20)
		if i%12 == 0 { // quotients and coefficients at the machine-word boundaries: 19/20 digits (2^63, 2^64), 38/39 digits (2^127, 2^128)
			c.P = []int{18, 19, 20, 38, 39}[g.R.Intn(5)]
			c.Emax, c.Emin = 100000, -100000
			x = finDec(g.R.bool(), g.R.near2(), g.R.between(-2, 2))
			y = finDec(g.R.bool(), bigInt(int64(g.R.between(1, 3))), g.R.between(-1, 1))
		}
		gap := g.R.between(-c.P-3, 2*c.P+6)
		if g.R.Intn(8) == 0 {
			gap = g.R.between(-150, 150)
		}
		if i%12 != 0 {
			y.E = x.E - gap
		}
		if i%20 == 3 { // every digit is discarded: a coefficient that IS a machine-word boundary block (18..39 digits), as a fraction below one
			blk, k := g.R.wordEdge(1)
			blk.Mod(blk, new(bigIntT).Exp(bigInt(10), bigInt(int64(k)), nil))
			x = finDec(g.R.bool(), blk, -k-g.R.Intn(2))
			c.Emax, c.Emin = 100000, -100000
			if c.P < 3 {
				c.P = 3
			}
		}
		if i%20 == 2 { // precisions beyond the 128-entry power-of-ten table
			c.P = []int{129, 130, 150, 200}[g.R.Intn(4)]
			c.Emax, c.Emin = 100000, -100000
		}
		if i%20 == 1 { // a dividend longer than the gap, the divisor's exponent more than 128 above the dividend's
			nd := g.R.between(131, 220)
			x = finDec(g.R.bool(), g.R.digits(nd), g.R.between(-5, 5))
			y = finDec(g.R.bool(), g.R.digits(g.R.between(1, 6)), x.E+g.R.between(127, nd-1))
			c.Emax, c.Emin = 100000, -100000
		}
		if g.R.Intn(6) == 0 { // trailing zeros (Reduce, exact quotients)
			k := g.R.between(1, 12)
			b := bigOfLimbs(x.C)
			for j := 0; j < k; j++ {
				b.Mul(b, bigInt(10))
			}
			x = finDec(x.N, b, x.E-k)
		}
		if g.R.Intn(40) == 0 {
			x = specialDecs[g.R.Intn(len(specialDecs))]
		}
		if g.R.Intn(40) == 0 {
			y = specialDecs[g.R.Intn(len(specialDecs))]
		}
		for _, op := range ops {
			q := 0
			if op == "quantize" && i%20 == 3 {
				q = g.R.between(0, 1)
			} else if op == "quantize" {
				q = x.E + g.R.between(-c.P-3, c.P+6)
				if g.R.Intn(5) == 0 {
					q = x.E + g.R.between(-60, 60)
				}
			}
			g.emit(mkA(op, c, x, y, q, "", fresh), op)
			aliased(g, op, c, x, y, q)
			if (gap > 126 || gap < -126 || i%20 <= 2) && x.F == 0 && y.F == 0 { // into a destination that held a non-finite value
				g.emit(mkA(op, c, x, y, q, "", specialDecs[g.R.Intn(len(specialDecs))]), op+"/pre")
			}
		}
	}
}

// specials: the finite space of C08 - every operation x every combination of
// {NaN, sNaN, +-Inf, +-0 with three exponents, a few finite values} x contexts,
// exhaustively in both tiers.
func init() {
	drivers["specials"] = func(g *G) {
		var vals []Dec
		vals = append(vals, specialDecs...)
		vals = append(vals, dirtySpecials()...)
		for _, e := range []int{-2, 0, 3} {
			vals = append(vals, finDec(false, bigInt(0), e), finDec(true, bigInt(0), e))
		}
		for _, f := range [][2]int{{1, 0}, {2, 0}, {3, 0}, {5, -1}, {15, -1}, {10, 0}, {7, 0}, {1, 2}, {999, -3}, {10, -1}, {100, -2}} {
			vals = append(vals, finDec(false, bigInt(int64(f[0])), f[1]), finDec(true, bigInt(int64(f[0])), f[1]))
		}
		// zeros and a one whose coefficient lives in heap-backed storage (a BigInt that was once wider than 128 bits)
		for _, n := range []bool{false, true} {
			z := finDec(n, bigInt(0), -1)
			z.Hp = true
			o := finDec(n, bigInt(1), 0)
			o.Hp = true
			vals = append(vals, z, o)
		}
		type rg struct{ p, emin, emax int }
		var ctxs []Ctx
		for i, r := range []rg{{3, -2, 3}, {7, -100, 100}, {1, 0, 3}, {0, -2, 3}} {
			for _, m := range append([]string{""}, modeNames...) {
				ctxs = append(ctxs, Ctx{P: r.p, Emin: r.emin, Emax: r.emax, R: m, T: 0})
				if i == 0 || i == 3 || g.thorough() {
					ctxs = append(ctxs, Ctx{P: r.p, Emin: r.emin, Emax: r.emax, R: m, T: 0x7af}) // DefaultTraps
				}
			}
		}
		un := []string{"abs", "neg", "round", "quantize", "tointx", "tointv", "ceil", "floor", "reduce", "sqrt", "cbrt", "exp", "ln", "log10",
			"dneg", "dabs", "dset", "dreduce"}
		bin := []string{"add", "sub", "mul", "quo", "quoint", "rem", "cmp", "pow"}
		for _, c := range ctxs {
			for _, x := range vals {
				for _, op := range un {
					if c.P == 0 && x.F == 0 && (op == "ln" || op == "log10" || op == "exp") { // no meaning with rounding disabled
						continue
					}
					if op == "quantize" {
						for _, q := range []int{-1, 0, 2} {
							g.emit(mkA(op, c, x, x, q, "", fresh), op)
						}
						continue
					}
					g.emit(mkA(op, c, x, x, 0, "", fresh), op)
				}
				for _, y := range vals {
					for _, op := range bin {
						if c.P == 0 && x.F == 0 && y.F == 0 && op == "pow" {
							continue
						}
						g.emit(mkA(op, c, x, y, 0, "", fresh), op)
						if (x.F >= 1 || y.F >= 1) && c.T == 0 { // a NaN or infinite operand that is also the destination
							g.emit(mkA(op, c, x, y, 0, "dx", fresh), op+"/alias")
							g.emit(mkA(op, c, x, y, 0, "dy", fresh), op+"/alias")
						}
					}
				}
				if c.T == 0 { // the same object as both operands (and as the destination too)
					for _, op := range bin {
						if c.P == 0 && x.F == 0 && op == "pow" {
							continue
						}
						g.emit(mkA(op, c, x, x, 0, "xy", fresh), op+"/xy")
						g.emit(mkA(op, c, x, x, 0, "dxy", fresh), op+"/dxy")
					}
				}
				if x.F >= 2 && c.T == 0 {
					for _, op := range un {
						g.emit(mkA(op, c, x, x, 0, "dx", fresh), op+"/alias")
					}
				}
			}
		}
	}
}

// dirtySpecials: infinities and NaNs whose (ignored) coefficient and exponent
// fields are not zero - the representation an overflow leaves behind.
func dirtySpecials() []Dec {
	var out []Dec
	for _, f := range []int{1, 2, 3} {
		for _, n := range []bool{false, true} {
			d := finDec(n, bigInt(99999), 7)
			d.F = f
			out = append(out, d)
			d2 := finDec(n, bigInt(12), -40)
			d2.F = f
			out = append(out, d2)
			d3 := finDec(n, bigInt(5), 7) // same stale exponent as d, different stale coefficient
			d3.F = f
			out = append(out, d3)
		}
	}
	return out
}

// NonTrivial: the call reached the arithmetic (not a NaN/infinity prologue) and either rounded, raised a
// condition, or returned a non-zero finite value.
func (e AEv) NonTrivial() bool {
	return e.Panic == "" && e.X.F == 0 && (e.Res.F == 0 || e.Res.F == 1) && (e.Fl != 0 || len(e.Res.C) > 0)
}
