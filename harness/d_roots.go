package main

import (
	"math/big"
)

// roots driver (C11): operands aimed at the rounding boundaries of Sqrt and Cbrt.
// No root is computed here either: operands are BUILT from chosen roots
// (r^2 + d, (2r+1)^2/4 + d, r^3 + d), never the other way round.
func init() {
	drivers["roots"] = func(g *G) {
		ctxFor := func(p int) Ctx {
			c := Ctx{P: p, Emin: -100000, Emax: 100000, R: modeNames[g.R.Intn(8)]}
			if g.R.Intn(5) == 0 { // narrow range: sub-normal roots
				c.Emin, c.Emax = -g.R.between(0, 12), g.R.between(p, p+12)
			}
			return c
		}
		emitBoth := func(c Ctx, x Dec) {
			g.emit(mkA("sqrt", c, absDec(x), x, 0, "", fresh), "sqrt")
			g.emit(mkA("cbrt", c, x, x, 0, "", fresh), "cbrt")
		}
		// small exhaustive part: every integer 1..2000 with exponents -2..3 at p = 1..4
		hi := g.pick(400, 2000)
		for v := 1; v <= hi; v++ {
			for _, e := range []int{-3, -2, -1, 0, 1, 2} {
				for _, p := range []int{1, 2, 3, 4} {
					if !g.thorough() && g.R.Intn(3) != 0 {
						continue
					}
					emitBoth(ctxFor(p), finDec(g.R.Intn(5) == 0, bigInt(int64(v)), e))
				}
			}
		}
		n := g.pick(14000, 600000)
		for i := 0; i < n; i++ {
			p := g.R.between(1, 24)
			if g.R.Intn(4) == 0 {
				p = g.R.between(1, 7)
			}
			c := ctxFor(p)
			r := g.R.digits(g.R.between(1, p+2))
			if g.R.bool() { // unbiased digits, root of exactly p or p-1 digits
				nd := p - g.R.Intn(2)
				if nd < 1 {
					nd = 1
				}
				lo := new(big.Int).Exp(big.NewInt(10), big.NewInt(int64(nd-1)), nil)
				r = new(big.Int).Add(lo, new(big.Int).Rand(g.R.Rand, new(big.Int).Mul(lo, big.NewInt(9))))
			}
			e := g.R.between(-30, 30)
			var x *big.Int
			neg := false
			kind := g.R.Intn(10)
			switch kind {
			case 0: // perfect square and neighbours
				x = new(big.Int).Mul(r, r)
				x.Add(x, big.NewInt(int64(g.R.between(-1, 1))))
				e *= 2
			case 1: // (r + 1/2)^2 = (2r+1)^2 / 4 : scale by 100 to stay integral, +- eps
				t := new(big.Int).Add(new(big.Int).Lsh(r, 1), big.NewInt(1))
				x = new(big.Int).Mul(t, t)
				x.Mul(x, big.NewInt(25)) // ((2r+1)^2/4) * 100
				x.Add(x, big.NewInt(int64(g.R.between(-1, 1))))
				e = 2*e - 2
			case 7: // (r + 1/2)^2 -+ a tiny amount many digits further down: an operand far longer than the precision, a hair off a tie
				t := new(big.Int).Add(new(big.Int).Lsh(r, 1), big.NewInt(1))
				x = new(big.Int).Mul(t, t)
				x.Mul(x, big.NewInt(25))
				k := g.R.between(2, 14)
				x.Mul(x, new(big.Int).Exp(big.NewInt(10), big.NewInt(int64(2*k)), nil))
				x.Add(x, big.NewInt(int64(g.R.between(-2, 2))))
				e = 2*e - 2 - 2*k
			case 2: // all nines / one-plus-epsilon coefficients, any parity of exponent
				k := g.R.between(1, 2*p+3)
				x = new(big.Int).Exp(big.NewInt(10), big.NewInt(int64(k)), nil)
				x.Add(x, big.NewInt(int64(g.R.between(-2, 2))))
			case 3: // perfect cube and neighbours (either sign)
				x = new(big.Int).Mul(r, new(big.Int).Mul(r, r))
				x.Add(x, big.NewInt(int64(g.R.between(-1, 1))))
				e *= 3
				neg = g.R.bool()
			case 4: // operands much longer than the precision, close to a short root's square
				x = new(big.Int).Mul(r, r)
				k := g.R.between(2, 20)
				x.Mul(x, new(big.Int).Exp(big.NewInt(10), big.NewInt(int64(2*k)), nil))
				x.Add(x, big.NewInt(int64(g.R.between(-3, 3))))
				e = 2*e - 2*k
			case 5: // nines; k = p and k = 2p are the half-way artefacts of the working precision
				k := g.R.between(1, 2*p+4)
				if g.R.bool() {
					k = []int{p, 2 * p, p + 1, 2*p - 1}[g.R.Intn(4)]
					if k < 1 {
						k = 1
					}
				}
				x = new(big.Int).Exp(big.NewInt(10), big.NewInt(int64(k)), nil)
				x.Sub(x, big.NewInt(1))
				if g.R.bool() {
					x.Mul(x, new(big.Int).Exp(big.NewInt(10), big.NewInt(int64(g.R.between(1, 12))), nil))
				}
			default:
				x = g.R.digits(g.R.between(1, 2*p+6))
				neg = g.R.Intn(4) == 0
			}
			if x.Sign() <= 0 {
				x = big.NewInt(int64(g.R.between(1, 9)))
			}
			if (kind == 0 || kind == 3) && g.R.Intn(3) == 0 { // the same value written with trailing zeros (more digits than 3p)
				z := g.R.between(1, 3*p+8)
				x.Mul(x, new(big.Int).Exp(big.NewInt(10), big.NewInt(int64(z)), nil))
				e -= z
			}
			d := finDec(neg, x, e)
			al, cls := "", ""
			if g.R.Intn(4) == 0 { // in place: the destination is the operand
				al, cls = "dx", "/dx"
			}
			if kind == 3 || kind == 6 || kind >= 8 {
				g.emit(mkA("cbrt", c, d, d, 0, al, fresh), "cbrt"+cls)
			}
			if kind != 3 {
				g.emit(mkA("sqrt", c, absDec(d), d, 0, al, fresh), "sqrt"+cls)
			}
		}
	}
}

func absDec(d Dec) Dec { d.N = false; return d }
