package main

import (
	"math/big"
	"math/rand"
)

// Rand is a seeded source for every random choice of the drivers.
type Rand struct{ *rand.Rand }

func NewRand(seed int64) *Rand { return &Rand{rand.New(rand.NewSource(seed*7919 + 17))} }

func (r *Rand) bool() bool { return r.Intn(2) == 0 }

// between returns an int in [lo, hi].
func (r *Rand) between(lo, hi int) int { return lo + r.Intn(hi-lo+1) }

// digits returns a random n-digit natural biased to runs of 0, 5, 9 and to
// boundary shapes (all nines, 10^k, 10^k+1, 5 followed by zeros, ...).
func (r *Rand) digits(n int) *big.Int {
	if n <= 0 {
		return new(big.Int)
	}
	buf := make([]byte, n)
	mode := r.Intn(10)
	for i := range buf {
		switch {
		case mode < 4:
			buf[i] = byte('0' + r.Intn(10))
		case mode < 7:
			// runs
			if i > 0 && r.Intn(4) != 0 {
				buf[i] = buf[i-1]
			} else {
				buf[i] = "0599901234"[r.Intn(10)]
			}
		case mode == 7:
			buf[i] = '9'
		case mode == 8:
			buf[i] = '0'
		default:
			buf[i] = "05"[r.Intn(2)]
		}
	}
	if buf[0] == '0' {
		buf[0] = byte('1' + r.Intn(9))
	}
	if mode >= 7 && n > 1 && r.bool() {
		// perturb the tail: ...9998, ...0001, ...5001
		buf[n-1] = byte('0' + r.Intn(10))
	}
	if mode == 9 && n > 2 && r.bool() {
		buf[r.Intn(n-1)+1] = '5'
	}
	v, _ := new(big.Int).SetString(string(buf), 10)
	return v
}

// near2 returns a value around 2^k for the inline/heap and 64-bit boundaries.
func (r *Rand) near2() *big.Int {
	ks := []uint{31, 32, 62, 63, 64, 65, 126, 127, 128, 129, 191, 192, 256}
	v := new(big.Int).Lsh(big.NewInt(1), ks[r.Intn(len(ks))])
	v.Add(v, big.NewInt(int64(r.Intn(5)-2)))
	return v
}

// wordEdge: a coefficient of keep random digits followed by a block of k digits (k = 18, 19, 20, 38, 39: the decimal
// sizes around 2^63, 2^64, 2^127, 2^128) whose value sits at a machine-word or half-way boundary - what a rounding
// step that discards exactly those digits, or an aligned comparison, sees as its remainder.  Returns the block size.
func (r *Rand) wordEdge(keep int) (*big.Int, int) {
	k := []int{18, 19, 19, 20, 38, 39}[r.Intn(6)]
	pk := new(big.Int).Exp(big.NewInt(10), big.NewInt(int64(k)), nil)
	var blk *big.Int
	switch r.Intn(6) {
	case 0:
		blk = r.near2()
	case 1: // just below the block's capacity: 99..9x
		blk = new(big.Int).Sub(pk, big.NewInt(int64(r.between(1, 9))))
	case 2: // about half
		blk = new(big.Int).Quo(pk, big.NewInt(2))
		blk.Add(blk, big.NewInt(int64(r.between(-2, 2))))
	case 3: // above 2^63 / 10^19 = 0.922..: the doubled remainder overflows a word
		blk = new(big.Int).Mul(pk, big.NewInt(int64(r.between(923, 999))))
		blk.Quo(blk, big.NewInt(1000))
		blk.Add(blk, big.NewInt(int64(r.Intn(1000))))
	case 4:
		blk = new(big.Int).Lsh(big.NewInt(1), []uint{63, 64, 127, 128}[r.Intn(4)])
		blk.Sub(blk, big.NewInt(int64(r.between(0, 3))))
	default:
		blk = r.digits(k)
	}
	blk.Mod(blk, pk)
	head := r.digits(keep)
	head.Mul(head, pk)
	return head.Add(head, blk), k
}

func bigInt(v int64) *big.Int { return big.NewInt(v) }

type bigIntT = big.Int
