INIT Init
NEXT Next
INVARIANTS SqrtAgrees SqrtExactFlag CbrtAgrees
CHECK_DEADLOCK FALSE
