INIT Init
NEXT Next
INVARIANTS BinadeCase SqrtAgrees SqrtExactFlag CbrtAgrees
CHECK_DEADLOCK FALSE
