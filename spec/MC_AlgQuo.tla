------------------------------ MODULE MC_AlgQuo ------------------------------
EXTENDS AlgQuo
CONSTANTS NMax, Bs, CarryFix, StickyFix, Wide
VARIABLES xn, yn, a, b, e, ctx
vars == <<xn, yn, a, b, e, ctx>>
Ns == (0..NMax) \cup {25, 49, 50, 95, 99, 100, 101, 150, 250, 499, 500, 995, 999, 1000, 1001, 9995, 9999, 25001}
Ranges == IF Wide THEN {<<-2, 3>>, <<0, 3>>, <<-100, 100>>} ELSE {<<-2, 3>>}
Ctxs == {[p |-> p, emin |-> rg[1], emax |-> rg[2], r |-> m, t |-> 0] : p \in {1, 2, 3}, rg \in Ranges, m \in Modes \cup {""}}
Init == xn \in BOOLEAN /\ yn = FALSE /\ a = -1 /\ b \in Bs /\ e \in -4..2 /\ ctx \in Ctxs
Next == a = -1 /\ a' \in Ns /\ UNCHANGED <<xn, yn, b, e, ctx>>
X == [f |-> FIN, n |-> xn, c |-> FromInt(IF a < 0 THEN 0 ELSE a), e |-> e]
Y == [f |-> FIN, n |-> yn, c |-> FromInt(b), e |-> 0]
A == AlgQuoP(ctx, X, Y, CarryFix, StickyFix)
W == Spec_Quo(ctx, X, Y)
Got == [f |-> A.f, n |-> xn # yn, c |-> A.c, e |-> A.e, cs |-> 1]
FlInt == (IF F_OVF \in A.fl THEN F_OVF ELSE 0) + (IF F_UNF \in A.fl THEN F_UNF ELSE 0) + (IF F_INEXACT \in A.fl THEN F_INEXACT ELSE 0)
       + (IF F_SUBN \in A.fl THEN F_SUBN ELSE 0) + (IF F_ROUNDED \in A.fl THEN F_ROUNDED ELSE 0) + (IF F_CLAMPED \in A.fl THEN F_CLAMPED ELSE 0)
Refines == a >= 0 =>
   /\ ValueOK(W, Got)
   /\ FlagsOK("quo", W, Got, FlInt)
   /\ FlagImpOK(Got, FlInt)
   /\ Fits(ctx, Got)
=============================================================================
