-------------------------------- MODULE Conc --------------------------------
(***************************************************************************)
(* C18: goroutines sharing a Context and operand Decimals.                 *)
(* Shared operand registers are read-only; each process writes only its    *)
(* own destination.  An operation is modelled at the grain at which        *)
(* BigInt.inner / updateInner work: Begin, Borrow (a temporary big.Int     *)
(* view is pointed at the operand's inline array - no copy), Compute       *)
(* (reads through the views), Write (own destination), End.                *)
(* Invariants: shared registers never change; every finished operation's   *)
(* result equals the sequential result on the (constant) operand values.   *)
(* WriteThroughView models an operation that uses a borrowed view (or a    *)
(* shared table entry) as scratch space: with AllowViewWrite = TRUE the    *)
(* invariants break (negative control, Conc_viewwrite.cfg) - that is the   *)
(* one way the sharing discipline can fail, and it is what the race        *)
(* detector observes on the real code.                                     *)
(***************************************************************************)
EXTENDS Integers, FiniteSets
CONSTANTS Procs, AllowViewWrite
Shared == {"a", "b"}                      \* a: inline operand, b: heap operand
VARIABLES shared, dest, pc, view, acc, done
vars == <<shared, dest, pc, view, acc, done>>
Init0 == [a |-> 3, b |-> 40]
Seq(p) == Init0.a + Init0.b                \* what the operation returns when run alone
Init == /\ shared = Init0 /\ dest = [p \in Procs |-> 0] /\ pc = [p \in Procs |-> "idle"]
        /\ view = [p \in Procs |-> {}] /\ acc = [p \in Procs |-> 0] /\ done = [p \in Procs |-> FALSE]
Begin(p)   == pc[p] = "idle" /\ ~done[p] /\ pc' = [pc EXCEPT ![p] = "borrow"] /\ UNCHANGED <<shared, dest, view, acc, done>>
Borrow(p)  == pc[p] = "borrow" /\ view' = [view EXCEPT ![p] = Shared] /\ pc' = [pc EXCEPT ![p] = "read-a"]
              /\ UNCHANGED <<shared, dest, acc, done>>
ReadA(p)   == pc[p] = "read-a" /\ acc' = [acc EXCEPT ![p] = shared.a] /\ pc' = [pc EXCEPT ![p] = "read-b"]
              /\ UNCHANGED <<shared, dest, view, done>>
ReadB(p)   == pc[p] = "read-b" /\ acc' = [acc EXCEPT ![p] = acc[p] + shared.b] /\ pc' = [pc EXCEPT ![p] = "write"]
              /\ UNCHANGED <<shared, dest, view, done>>
Write(p)   == pc[p] = "write" /\ dest' = [dest EXCEPT ![p] = acc[p]] /\ pc' = [pc EXCEPT ![p] = "end"]
              /\ UNCHANGED <<shared, view, acc, done>>
End(p)     == pc[p] = "end" /\ view' = [view EXCEPT ![p] = {}] /\ done' = [done EXCEPT ![p] = TRUE]
              /\ pc' = [pc EXCEPT ![p] = "idle"] /\ UNCHANGED <<shared, dest, acc>>
\* a defective operation scribbles on an operand through its borrowed view and restores it later
WriteThroughView(p) == /\ AllowViewWrite /\ pc[p] \in {"read-a", "read-b"} /\ "a" \in view[p]
                       /\ shared' = [shared EXCEPT !.a = 0] /\ UNCHANGED <<dest, pc, view, acc, done>>
Restore(p) == /\ AllowViewWrite /\ pc[p] = "write" /\ shared.a = 0
              /\ shared' = [shared EXCEPT !.a = Init0.a] /\ UNCHANGED <<dest, pc, view, acc, done>>
Next == \E p \in Procs : Begin(p) \/ Borrow(p) \/ ReadA(p) \/ ReadB(p) \/ Write(p) \/ End(p) \/ WriteThroughView(p) \/ Restore(p)
SharedUnchanged == shared = Init0
SameAsAlone == \A p \in Procs : done[p] => dest[p] = Seq(p)
OwnDestinationOnly == [][\A p \in Procs : dest'[p] # dest[p] => pc[p] = "write"]_vars
Spec == Init /\ [][Next]_vars
=============================================================================
