INIT Init
NEXT Next
CONSTANTS Small = 2200
  KMax = 60
  ShortcutOK = FALSE
  Geq = TRUE
INVARIANTS Agrees PowTen TableLaw
CHECK_DEADLOCK FALSE
