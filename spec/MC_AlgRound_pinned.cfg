INIT Init
NEXT Next
CONSTANTS SignFix = FALSE
  NMax = 4
INVARIANTS Refines DigitsRemovedRounded
CHECK_DEADLOCK FALSE
