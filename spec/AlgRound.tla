------------------------------ MODULE AlgRound ------------------------------
(***************************************************************************)
(* Layer 2: an implementation-shaped transcription of the rounding path    *)
(*   round.go  Rounder.Round, roundAddOne                                  *)
(*   decimal.go  setExponent (with its own Modf / ShouldAddOne rounding)   *)
(* as it is in the current tree (after fixes fcfa491 and 54b5caa), branch  *)
(* by branch, including the conditions the properties leave free (Rounded, *)
(* Clamped) and the exponent the code chooses.                             *)
(* MC_AlgRound checks  AlgRound => Spec  (layer 1: Arith!Rnd) on the       *)
(* boundary domain, i.e. that this algorithm is a correct implementation   *)
(* of "rounded once"; per-branch coverage (-coverage 1) shows which        *)
(* branches the domain reaches.  A code change that merely diverges from   *)
(* this transcription while still satisfying layer 1 is reported as        *)
(* alg_model_drift in the evidence and never as a violation.               *)
(***************************************************************************)
EXTENDS Arith

\* setExponent(c, nd, res, xs...) on a finite coefficient: returns [f, c, e, fl]  (fl a set of condition bits)
\* sum is the requested exponent; system-limit exits are outside the modelled domain
SetExponentP(ctx, neg, coeff, sum, res, signfix) ==
  LET nd == NumDigits(coeff)
      adj == sum + nd - 1
      etiny == ctx.emin - (ctx.p - 1)
  IN IF adj < ctx.emin THEN
       LET res1 == IF IsZero(coeff) THEN res ELSE res \cup {F_SUBN} IN
       IF sum < etiny THEN
          \* take off (etiny - sum) digits: integ/frac split and the code's own ShouldAddOne
          LET k == etiny - sum
              dd == DropDigits(coeff, k)
              integ == dd[1]
              fracNZ == dd[2]
              half == IF fracNZ THEN Cmp(Add(ModPow10(coeff, k), ModPow10(coeff, k)), Pow10(k)) ELSE -1
              integ2 == IF fracNZ /\ Inc(ctx.r, neg /\ signfix, integ, half, TRUE) THEN Add(integ, One) ELSE integ   \* signfix = FALSE: the pinned tree (before fcfa491)
              res2 == (IF fracNZ THEN res1 \cup {F_INEXACT} ELSE res1)
                      \cup (IF IsZero(integ2) THEN {F_CLAMPED} ELSE {}) \cup {F_ROUNDED}
              res3 == IF F_INEXACT \in res2 /\ F_SUBN \in res2 THEN res2 \cup {F_UNF} ELSE res2
          IN [f |-> FIN, c |-> integ2, e |-> etiny, fl |-> res3]
       ELSE [f |-> FIN, c |-> coeff, e |-> sum,
             fl |-> IF F_INEXACT \in res1 /\ F_SUBN \in res1 THEN res1 \cup {F_UNF} ELSE res1]
     ELSE IF adj > ctx.emax THEN
       (IF IsZero(coeff) THEN [f |-> FIN, c |-> coeff, e |-> ctx.emax, fl |-> res \cup {F_CLAMPED}]
        ELSE [f |-> INF, c |-> coeff, e |-> sum, fl |-> res \cup {F_OVF, F_INEXACT}])
     ELSE [f |-> FIN, c |-> coeff, e |-> sum, fl |-> res]

SetExponent(ctx, neg, coeff, sum, res) == SetExponentP(ctx, neg, coeff, sum, res, TRUE)

\* Rounder.Round(c, d, x, disableIfPrecisionZero = TRUE) for a finite or infinite x
AlgRoundP(ctx, x, signfix) ==
  IF x.f # FIN THEN [f |-> x.f, c |-> x.c, e |-> x.e, fl |-> {}]                       \* fix 54b5caa: non-finite values are left alone
  ELSE IF ctx.p = 0 THEN SetExponentP(ctx, x.n, x.c, x.e, {}, signfix)                           \* rounding disabled
  ELSE LET nd == NumDigits(x.c)
           adj == x.e + nd - 1
       IN IF ~IsZero(x.c) /\ adj < ctx.emin
          THEN SetExponentP(ctx, x.n, x.c, x.e, {F_SUBN}, signfix)                              \* subnormal is decided before rounding
          ELSE LET diff == nd - ctx.p IN
               IF diff > 0 THEN
                  LET y == DropDigits(x.c, diff)[1]
                      m == ModPow10(x.c, diff)
                      inx == ~IsZero(m)
                      half == IF inx THEN Cmp(Add(m, m), Pow10(diff)) ELSE -1
                      addone == inx /\ Inc(ctx.r, x.n, y, half, TRUE)
                      y1 == IF addone THEN Add(y, One) ELSE y
                      grew == addone /\ NumDigits(y1) > NumDigits(y)                   \* roundAddOne: 99..9 + 1
                      y2 == IF grew THEN DropDigits(y1, 1)[1] ELSE y1
                      diff2 == IF grew THEN diff + 1 ELSE diff
                      res == {F_ROUNDED} \cup (IF inx THEN {F_INEXACT} ELSE {})
                  IN SetExponentP(ctx, x.n, y2, x.e + diff2, res, signfix)
               ELSE SetExponentP(ctx, x.n, x.c, x.e, {}, signfix)
AlgRound(ctx, x) == AlgRoundP(ctx, x, TRUE)
=============================================================================
