----------------------------- MODULE MC_Order -----------------------------
(* The order axioms of C15 as theorems of the specification's own          *)
(* CmpTotalSpec / CmpSpec on a set of representations chosen to collide:   *)
(* specials, signed zeros with several exponents, equal values with        *)
(* different exponents, coinciding digit-count+exponent sums.              *)
EXTENDS Order
VARIABLES x, y, z
D(f, n, c, e) == [f |-> f, n |-> n, c |-> FromInt(c), e |-> e]
Vals == {D(f, n, 0, 0) : f \in {INF, SNAN, QNAN}, n \in BOOLEAN}
   \cup {D(FIN, n, c, e) : n \in BOOLEAN, c \in {0, 1, 10, 100, 12, 120, 123, 99, 999, 1000}, e \in {-2, 0, 1}}
Init == x \in Vals /\ y \in Vals /\ z = D(FIN, FALSE, 0, 0)
Next == z' \in Vals /\ UNCHANGED <<x, y>>
T(a, b) == CmpTotalSpec(a, b)
Antisym == T(x, y) = -T(y, x)
Trans == (T(x, y) <= 0 /\ T(y, z) <= 0) => T(x, z) <= 0
ZeroIffSame == (T(x, y) = 0) <=> AbsEq(x, y)
AgreesWithCmp == (~IsNaNForm(x) /\ ~IsNaNForm(y) /\ CmpSpec(x, y) # 0) => T(x, y) = CmpSpec(x, y)
CmpAxioms == (~IsNaNForm(x) /\ ~IsNaNForm(y) /\ ~IsNaNForm(z)) =>
               /\ CmpSpec(x, y) = -CmpSpec(y, x)
               /\ (CmpSpec(x, y) <= 0 /\ CmpSpec(y, z) <= 0) => CmpSpec(x, z) <= 0
               /\ (ZeroD(x) /\ ZeroD(y)) => CmpSpec(x, y) = 0
               /\ (x.f = FIN /\ y.f = FIN /\ x.n = y.n /\ NumEq(x.c, x.e, y.c, y.e)) => CmpSpec(x, y) = 0
               /\ (x.f = INF /\ ~x.n /\ y.f = FIN) => CmpSpec(x, y) = 1
               /\ (x.f = INF /\ x.n /\ y.f = FIN) => CmpSpec(x, y) = -1
EqualValuesByExponent == (x.f = FIN /\ y.f = FIN /\ x.n = y.n /\ NumEq(x.c, x.e, y.c, y.e) /\ x.e < y.e) =>
                           T(x, y) = (IF x.n THEN 1 ELSE -1)
FormOrder == (Rank(x) < Rank(y)) => T(x, y) = -1
=============================================================================
