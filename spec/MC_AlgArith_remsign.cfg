INIT Init
NEXT Next
CONSTANTS NMax = 3
  FloorFix = TRUE
  FlipFix = TRUE
  RemSign = FALSE
  Lvl = 0
INVARIANTS AddRefines MulRefines CmpRefines DivRefines UnaryRefines
CHECK_DEADLOCK FALSE
