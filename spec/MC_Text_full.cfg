INIT Init
NEXT Next
CONSTANT MaxLen = 5
INVARIANTS RoundTrip PlainRoundTrip Total SameLanguage SciShape
CHECK_DEADLOCK FALSE
