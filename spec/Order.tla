------------------------------- MODULE Order -------------------------------
(***************************************************************************)
(* C15: Cmp is the exact numeric order (DecBase!CmpSpec); CmpTotal is the  *)
(* documented total order on all representations.                          *)
(* Anchors: decimal.go Cmp, CmpTotal, cmpOrder; context.go Context.Cmp.    *)
(***************************************************************************)
EXTENDS DecBase
\* -NaN < -sNaN < -Inf < -finite < +finite < +Inf < +sNaN < +NaN
Rank(d) == LET r == CASE d.f = FIN -> 1 [] d.f = INF -> 2 [] d.f = SNAN -> 3 [] OTHER -> 4
           IN IF d.n THEN -r ELSE r
Sgn(i) == IF i < 0 THEN -1 ELSE IF i > 0 THEN 1 ELSE 0
CmpTotalSpec(x, y) ==
  IF Rank(x) # Rank(y) THEN Sgn(Rank(x) - Rank(y))
  ELSE IF x.f # FIN THEN 0
  ELSE LET v == IF x.n THEN -CmpMag(x.c, x.e, y.c, y.e) ELSE CmpMag(x.c, x.e, y.c, y.e) IN
       IF v # 0 THEN v
       ELSE IF x.n THEN Sgn(y.e - x.e) ELSE Sgn(x.e - y.e)
=============================================================================
