INIT Init
NEXT Next
CONSTANTS SignFix = TRUE
  NMax = 1200
INVARIANTS Refines DigitsRemovedRounded
CHECK_DEADLOCK FALSE
