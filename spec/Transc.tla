------------------------------- MODULE Transc -------------------------------
(***************************************************************************)
(* C12: interval enclosures of exp built from the exact limb arithmetic,   *)
(* and acceptance predicates for Exp, Ln, Log10 and Pow ("within one unit  *)
(* in the last place").  A positive big-float is [m, e] = m*10^e.          *)
(*   ExpEnclS(neg, X, ex, w) = [lo, hi] with lo <= exp(+-X*10^ex) <= hi    *)
(* (argument halving x*5^j*10^-j exactly, Horner-Taylor with directed      *)
(* rounding at w digits and an explicit tail bound, j squarings).          *)
(* Every verdict is SOUND by construction: a violation is reported only    *)
(* when the observed result is provably more than one unit away (it lies   *)
(* outside the enclosure widened by one unit); an enclosure that is too    *)
(* wide can only make the check more permissive, never raise an alarm.     *)
(* Anchors: context.go Exp, Ln, Log10, Pow, integerPower; const.go.        *)
(***************************************************************************)
EXTENDS DecBase
LOCAL INSTANCE SequencesExt

BF(m, e) == [m |-> m, e |-> e]
BOne == BF(One, 0)
CmpBF(a, b) == CmpMag(a.m, a.e, b.m, b.e)
\* directed rounding to w significant digits
RoundDn(m, e, w) == LET nd == NumDigits(m) IN IF nd <= w THEN BF(m, e) ELSE BF(DropDigits(m, nd - w)[1], e + (nd - w))
RoundUp(m, e, w) == LET nd == NumDigits(m) IN IF nd <= w THEN BF(m, e)
                    ELSE LET dr == DropDigits(m, nd - w) IN BF(IF dr[2] THEN Add(dr[1], One) ELSE dr[1], e + (nd - w))
MulD(a, b, w) == RoundDn(Mul(a.m, b.m), a.e + b.e, w)
MulU(a, b, w) == RoundUp(Mul(a.m, b.m), a.e + b.e, w)
\* divide by a small natural k (< 2*10^6)
DivKD(a, k, w) == LET m2 == ShiftLimbs(a.m, 3) IN RoundDn(DivSmall(m2, k)[1], a.e - 9, w)
DivKU(a, k, w) == LET m2 == ShiftLimbs(a.m, 3)  qr == DivSmall(m2, k) IN RoundUp(IF qr[2] # 0 THEN Add(qr[1], One) ELSE qr[1], a.e - 9, w)
\* 1 + a  (a >= 0)
OnePlusD(a, w) == IF IsZero(a.m) THEN BOne ELSE IF a.e >= 0 THEN RoundDn(Add(MulPow10(a.m, a.e), One), 0, w) ELSE RoundDn(Add(a.m, Pow10(-a.e)), a.e, w)
OnePlusU(a, w) == IF IsZero(a.m) THEN BOne ELSE IF a.e >= 0 THEN RoundUp(Add(MulPow10(a.m, a.e), One), 0, w) ELSE RoundUp(Add(a.m, Pow10(-a.e)), a.e, w)
\* reciprocal bounds of a > 0 to w digits
RecipD(a, w) == LET k == w + NumDigits(a.m) IN RoundDn(DivMod(Pow10(k), a.m)[1], -k - a.e, w)
RecipU(a, w) == LET k == w + NumDigits(a.m)  qr == DivMod(Pow10(k), a.m) IN RoundUp(IF IsZero(qr[2]) THEN qr[1] ELSE Add(qr[1], One), -k - a.e, w)

HornerD(r, K, w) == FoldLeft(LAMBDA acc, k : OnePlusD(DivKD(MulD(r, acc, w), K + 1 - k, w), w), BOne, [i \in 1..K |-> i])
HornerU(r, K, w) == FoldLeft(LAMBDA acc, k : OnePlusU(DivKU(MulU(r, acc, w), K + 1 - k, w), w), BOne, [i \in 1..K |-> i])
SqD(a, j, w) == FoldLeft(LAMBDA acc, k : MulD(acc, acc, w), a, [i \in 1..j |-> i])
SqU(a, j, w) == FoldLeft(LAMBDA acc, k : MulU(acc, acc, w), a, [i \in 1..j |-> i])
Pow5(j) == PowNat(<<5>>, j)

\* bounds of exp(x) for x = X*10^ex > 0.  r = x/2^j = X*5^j*10^(ex-j) < 1/16;
\* Taylor to K terms, tail < r^K/K! * 2 < one unit of the last of w digits for K >= (w+3)*10/12+1.
\* Lower and upper bound are separate operators so that a caller pays only for the bound it needs.
ExpJ(X, ex) == LET adj1 == NumDigits(X) + ex IN IF adj1 <= -2 THEN 0 ELSE 5 + ((adj1 + 1) * 10) \div 3
ExpK(w) == ((w + 3) * 10) \div 12 + 1
ExpLoPos(X, ex, w) ==
  LET j == ExpJ(X, ex)
      rD == RoundDn(Mul(X, Pow5(j)), ex - j, w)
  IN SqD(HornerD(rD, ExpK(w), w), j, w)
ExpHiPos(X, ex, w) ==
  LET j == ExpJ(X, ex)
      rU == RoundUp(Mul(X, Pow5(j)), ex - j, w)
      sU0 == HornerU(rU, ExpK(w), w)
      sU == RoundUp(Add(sU0.m, One), sU0.e, w + 1)      \* tail bound: one unit of the last place
  IN SqU(sU, j, w)
\* exp(+-x), x >= 0
ExpLoS(neg, X, ex, w) == IF IsZero(X) THEN BOne ELSE IF neg THEN RecipD(ExpHiPos(X, ex, w), w) ELSE ExpLoPos(X, ex, w)
ExpHiS(neg, X, ex, w) == IF IsZero(X) THEN BOne ELSE IF neg THEN RecipU(ExpLoPos(X, ex, w), w) ELSE ExpHiPos(X, ex, w)
ExpEnclS(neg, X, ex, w) == [lo |-> ExpLoS(neg, X, ex, w), hi |-> ExpHiS(neg, X, ex, w)]
\* working digits for a result of p digits and an argument below 10^adj1
WorkDigits(p, adj1) == p + 14 + (IF adj1 <= -2 THEN 0 ELSE (5 + ((adj1 + 1) * 10) \div 3) \div 3)

\* the signed decimal (R +- 1) * 10^er as [n, m, e]
StepUlp(neg, R, er, up) ==      \* value +-(R*10^er) moved one unit up (towards +inf) or down
  LET grow == (up /\ ~neg) \/ (~up /\ neg) IN
  IF grow THEN [n |-> neg, m |-> Add(R, One), e |-> er]
  ELSE IF IsZero(R) THEN [n |-> ~neg, m |-> One, e |-> er]
  ELSE [n |-> neg, m |-> Sub(R, One), e |-> er]

\* ---- Exp: observed r = R*10^er (positive, p digits) for operand +-X*10^ex ----
\* violation only if r - ulp > exp(x) or r + ulp < exp(x), proven through the enclosure
ExpOK(xneg, X, ex, R, er, p) ==
  LET adj1 == NumDigits(X) + ex
      w == WorkDigits(p, adj1)
      en == ExpEnclS(xneg, X, ex, w)
      s == IF NumDigits(R) >= p THEN <<R, er>> ELSE <<MulPow10(R, p - NumDigits(R)), er - (p - NumDigits(R))>>
  IN /\ (IsZero(Sub(s[1], One)) \/ CmpBF(BF(Sub(s[1], One), s[2]), en.hi) <= 0)
     /\ CmpBF(en.lo, BF(Add(s[1], One), s[2])) <= 0
\* overflow / underflow claims: the exact value must really be out of range
ExpOverflowOK(xneg, X, ex, ctx) ==
  LET adj1 == NumDigits(X) + ex IN
  IF xneg THEN FALSE
  ELSE IF adj1 > 7 THEN TRUE                                     \* x >= 10^6 > ln(10)*100001
  ELSE CmpBF(ExpHiS(FALSE, X, ex, WorkDigits(6, adj1)), BF(<<9>>, ctx.emax)) >= 0
ExpUnderflowOK(xneg, X, ex, ctx) ==
  LET adj1 == NumDigits(X) + ex IN
  IF ~xneg THEN FALSE
  ELSE IF adj1 > 7 THEN TRUE
  ELSE CmpBF(ExpLoS(TRUE, X, ex, WorkDigits(6, adj1)), BF(One, ctx.emin)) < 0

RelDigits(er) == IF er < 0 THEN -er ELSE 1
\* ---- Ln: observed r = +-R*10^er for operand X*10^ex > 0:  exp(r - ulp) <= x <= exp(r + ulp) ----
LnOK(X, ex, rneg, R, er, p) ==
  LET s == IF NumDigits(R) >= p THEN <<R, er>> ELSE <<MulPow10(R, p - NumDigits(R)), er - (p - NumDigits(R))>>
      hiArg == StepUlp(rneg, s[1], s[2], TRUE)
      loArg == StepUlp(rneg, s[1], s[2], FALSE)
      \* the two exponentials differ by the factor e^(2 ulp): -er + 4 fractional digits decide; more only costs time
      w == WorkDigits(RelDigits(s[2]) + 4, NumDigits(s[1]) + s[2])
      x == BF(X, ex)
  IN /\ CmpBF(x, ExpHiS(hiArg.n, hiArg.m, hiArg.e, w)) <= 0        \* else ln x > r + ulp for certain
     /\ CmpBF(ExpLoS(loArg.n, loArg.m, loArg.e, w), x) <= 0        \* else ln x < r - ulp for certain

\* ---- range claims of Ln / Log10 (C12: "reported as overflowed or underflowed only if the exact value really
\* lies outside the context's range").  Both tests are one-sided: FALSE only when the claim is certainly wrong.
RECURSIVE IPow10(_)
IPow10(k) == IF k <= 0 THEN 1 ELSE 10 * IPow10(k - 1)
\* |log10 x| < |ex + nd| + 1 and |ln x| < 2.4 (|ex + nd| + 1); an overflow needs a magnitude of at least 0.9 * 10^(Emax+1)
LogOverflowOK(isLn, X, ex, ctx) ==
  LET a == (IF ex + NumDigits(X) < 0 THEN -(ex + NumDigits(X)) ELSE ex + NumDigits(X)) + 1 IN
  IF ctx.emax < 0 THEN TRUE
  ELSE IF ctx.emax >= 6 THEN FALSE                                   \* |ln x| < 2.4 * 200001 < 0.9 * 10^7 for every representable x
  ELSE (IF isLn THEN a * 24 ELSE a * 10) >= 9 * IPow10(ctx.emax + 1)
\* a zero / sub-normal / underflowed logarithm needs |ln x| < 10^Emin.  For 1/2 <= x <= 2: |ln x| >= |x - 1| / 2 and
\* |log10 x| >= |x - 1| / 5; outside that interval |ln x| > 0.69 and |log10 x| > 0.30
LogTinyOK(isLn, X, ex, ctx) ==
  IF CmpMag(X, ex, <<5>>, -1) >= 0 /\ CmpMag(X, ex, <<2>>, 0) <= 0
  THEN LET m == IF ex < 0 THEN ex ELSE 0
           xa == MulPow10(X, ex - m)
           one == Pow10(-m)
           diff == IF Cmp(xa, one) >= 0 THEN Sub(xa, one) ELSE Sub(one, xa)
       IN CmpMag(diff, m, IF isLn THEN <<2>> ELSE <<5>>, ctx.emin) < 0
  ELSE ctx.emin >= 0

\* ---- ln 10 to 60 digits, verified by TLC at start-up (not taken from const.go) ----
Ln10Lo == BF(<<628, 488, 101, 601, 207, 364, 684, 454, 991, 17, 684, 45, 994, 92, 585, 302, 2>>, -48)   \* 2.302585092994045684017991454684364207601101488628 (truncated)
Ln10Hi == BF(Add(Ln10Lo.m, One), Ln10Lo.e)
ASSUME CmpBF(ExpEnclS(FALSE, Ln10Lo.m, Ln10Lo.e, 60).lo, BF(<<10>>, 0)) <= 0
ASSUME CmpBF(BF(<<10>>, 0), ExpEnclS(FALSE, Ln10Hi.m, Ln10Hi.e, 60).hi) <= 0

\* ---- Log10: 10^(r - ulp) <= x <= 10^(r + ulp) with 10^y = exp(y * ln 10) ----
TenPowLo(y, w) ==          \* y = [n, m, e]; lower bound of 10^y
  IF IsZero(y.m) THEN BOne
  ELSE IF ~y.n THEN ExpLoS(FALSE, Mul(y.m, Ln10Lo.m), y.e + Ln10Lo.e, w)
  ELSE ExpLoS(TRUE, Mul(y.m, Ln10Hi.m), y.e + Ln10Hi.e, w)
TenPowHi(y, w) ==
  IF IsZero(y.m) THEN BOne
  ELSE IF ~y.n THEN ExpHiS(FALSE, Mul(y.m, Ln10Hi.m), y.e + Ln10Hi.e, w)
  ELSE ExpHiS(TRUE, Mul(y.m, Ln10Lo.m), y.e + Ln10Lo.e, w)
Log10OK(X, ex, rneg, R, er, p) ==
  LET s == IF NumDigits(R) >= p THEN <<R, er>> ELSE <<MulPow10(R, p - NumDigits(R)), er - (p - NumDigits(R))>>
      hiArg == StepUlp(rneg, s[1], s[2], TRUE)
      loArg == StepUlp(rneg, s[1], s[2], FALSE)
      w == WorkDigits(RelDigits(s[2]) + 4, NumDigits(s[1]) + s[2] + 1)
      x == BF(X, ex)
  IN /\ CmpBF(x, TenPowHi(hiArg, w)) <= 0
     /\ CmpBF(TenPowLo(loArg, w), x) <= 0
\* x is exactly 10^k
IsPow10(X) == X = Pow10(NumDigits(X) - 1)

\* ---- Pow with a verified hint.  The harness supplies an UNTRUSTED approximation h of ln x;
\* the specification first proves |h - ln x| <= 10^he (via exp), then encloses x^y = exp(y ln x).
HintOK(X, ex, hneg, H, he) ==           \* exp(h - 10^he) <= x <= exp(h + 10^he)
  LET up == StepUlp(hneg, H, he, TRUE)  dn == StepUlp(hneg, H, he, FALSE)
      w == WorkDigits(RelDigits(he) + 4, NumDigits(H) + he)
      x == BF(X, ex)
  IN CmpBF(ExpLoS(dn.n, dn.m, dn.e, w), x) <= 0 /\ CmpBF(x, ExpHiS(up.n, up.m, up.e, w)) <= 0
\* enclosure of exp(y*l) for l in [h - 10^he, h + 10^he], y = +-Y*10^ey
PowEncl(yneg, Y, ey, hneg, H, he, w) ==
  LET up == StepUlp(hneg, H, he, TRUE)  dn == StepUlp(hneg, H, he, FALSE)
      \* products y*dn and y*up as signed [n, m, e]; the smaller / larger of the two bound the argument
      P(v) == [n |-> yneg # v.n, m |-> Mul(Y, v.m), e |-> ey + v.e]
      a == P(dn)  b == P(up)
      Less(u, v) == IF u.n # v.n THEN u.n ELSE IF u.n THEN CmpMag(u.m, u.e, v.m, v.e) > 0 ELSE CmpMag(u.m, u.e, v.m, v.e) < 0
      lo == IF Less(a, b) THEN a ELSE b
      hi == IF Less(a, b) THEN b ELSE a
  IN [lo |-> ExpLoS(lo.n, lo.m, lo.e, w), hi |-> ExpHiS(hi.n, hi.m, hi.e, w)]
PowOK(yneg, Y, ey, hneg, H, he, R, er, p) ==
  LET adjArg == NumDigits(Y) + ey + NumDigits(H) + he
      w == WorkDigits(p, adjArg)
      en == PowEncl(yneg, Y, ey, hneg, H, he, w)
      s == IF NumDigits(R) >= p THEN <<R, er>> ELSE <<MulPow10(R, p - NumDigits(R)), er - (p - NumDigits(R))>>
  IN /\ (IsZero(Sub(s[1], One)) \/ CmpBF(BF(Sub(s[1], One), s[2]), en.hi) <= 0)
     /\ CmpBF(en.lo, BF(Add(s[1], One), s[2])) <= 0
=============================================================================
