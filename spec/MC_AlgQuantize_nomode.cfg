INIT Init
NEXT Next
CONSTANTS NMax = 5
  ModeFix = FALSE
  RangeFix = TRUE
INVARIANT Refines
CHECK_DEADLOCK FALSE
