INIT Init
NEXT Next
CONSTANTS Small = 2200
  KMax = 60
  ShortcutOK = TRUE
  Geq = TRUE
INVARIANTS Agrees PowTen TableLaw
CHECK_DEADLOCK FALSE
