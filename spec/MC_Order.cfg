INIT Init
NEXT Next
INVARIANTS Antisym Trans ZeroIffSame AgreesWithCmp CmpAxioms EqualValuesByExponent FormOrder
CHECK_DEADLOCK FALSE
