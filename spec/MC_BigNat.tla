---------------------------- MODULE MC_BigNat ----------------------------
(* Self-check of the limb arithmetic, independent of the code under test:  *)
(* (1) exhaustive agreement with TLC integers on a small range,            *)
(* (2) algebraic identities on large structured values.                    *)
EXTENDS BigNat
VARIABLE i
R == 0..1300
Big == { <<999,999,999,999,999>>, <<1,0,0,0,0,0,1>>, <<500,0,0,500>>, <<123,456,789,12,345,678,901>>,
         <<999>>, <<0,1>>, <<7>>, <<999,499>>, <<0,0,0,0,0,0,0,0,0,0,0,0,1>>, <<615,551,709,73,744,446,18>>,
         <<456,768,211,455,431,607,374,463,463,920,938,366,282,340>> }
Small == { <<1>>, <<3>>, <<999>>, <<0,1>>, <<999,999>>, <<1,500>>, <<17,3,2>> }
ASSUME \A a \in R : ToInt(FromInt(a)) = a /\ IsNat(FromInt(a))
ASSUME \A a \in 0..140, b \in 0..140 :
          /\ ToInt(Add(FromInt(a * 37), FromInt(b * 91))) = a * 37 + b * 91
          /\ ToInt(Mul(FromInt(a * 13), FromInt(b * 29))) = a * 13 * b * 29
          /\ Cmp(FromInt(a * 7), FromInt(b * 7)) = (IF a < b THEN -1 ELSE IF a > b THEN 1 ELSE 0)
          /\ (a >= b => ToInt(Sub(FromInt(a * 1009), FromInt(b * 1009))) = (a - b) * 1009)
          /\ (b > 0 => LET qr == DivMod(FromInt(a * 4801), FromInt(b * 53)) IN
                          ToInt(qr[1]) = (a * 4801) \div (b * 53) /\ ToInt(qr[2]) = (a * 4801) % (b * 53))
ASSUME \A a \in R : NumDigits(FromInt(a)) = (IF a < 10 THEN 1 ELSE IF a < 100 THEN 2 ELSE IF a < 1000 THEN 3 ELSE 4)
ASSUME \A a \in 1..1300, k \in 0..7 :
          /\ DropDigits(MulPow10(FromInt(a), k), k) = <<FromInt(a), FALSE>>
          /\ ModPow10(Add(MulPow10(FromInt(a), 7), FromInt(a)), 7) = FromInt(a)
          /\ TrailingZeros(MulPow10(FromInt(a), k)) = k + TrailingZeros(FromInt(a))
          /\ NumDigits(MulPow10(FromInt(a), k)) = NumDigits(FromInt(a)) + k
ASSUME \A a \in Big, b \in Big \cup Small :
          LET qr == DivMod(a, b) IN
          /\ IsNat(qr[1]) /\ IsNat(qr[2])
          /\ Add(Mul(qr[1], b), qr[2]) = a
          /\ Cmp(qr[2], b) < 0
          /\ Mul(a, b) = Mul(b, a)
          /\ Sub(Add(a, b), b) = a
          /\ DivMod(Mul(a, b), b) = <<a, <<>>>>
          /\ Cmp(Add(a, b), a) = 1
ASSUME \A a \in Big, k \in {0, 1, 2, 3, 10, 17} :
          /\ DropDigits(a, k)[1] = DivMod(a, Pow10(k))[1]
          /\ DropDigits(a, k)[2] = ~IsZero(DivMod(a, Pow10(k))[2])
          /\ ModPow10(a, k) = DivMod(a, Pow10(k))[2]
ASSUME PowNat(<<7>>, 13) = <<407, 10, 889, 96>>   \* 7^13 = 96889010407
Init == i = 0
Next == i < 1 /\ i' = i + 1
=============================================================================
