---------------------------- MODULE AlgQuantize ----------------------------
(***************************************************************************)
(* Layer 2: implementation-shaped transcription of Context.Quantize and    *)
(* the unexported quantize (context.go) as in the current tree:            *)
(*   diff < 0 : pad the coefficient                                         *)
(*   diff > 0 : p = digits - diff;  p < 0 : all digits discarded, result    *)
(*              0 or 1 by ShouldAddOne(0, neg, -1);  p >= 0 : Rounder.Round  *)
(*              at precision p on the temporary exponent -diff with the      *)
(*              exponent range lifted, then the 0.9 -> 1.0 roll-over         *)
(*   Quantize: digit / range checks, final c.round                          *)
(*   modefix = FALSE : before 79b2bcd (p < 0 always gave 0)                 *)
(*   rangefix = FALSE: before 6bc5724 (caller's MinExponent applied to the  *)
(*                     temporary value)                                     *)
(***************************************************************************)
EXTENDS AlgRound

\* quantize(d, v, exp): [c, fl]  (coefficient at exponent exp, conditions)
AlgQuantizeInner(ctx, x, q, modefix, rangefix) ==
  LET diff == q - x.e IN
  IF diff <= 0 THEN [c |-> MulPow10(x.c, -diff), fl |-> {}]
  ELSE LET nd == NumDigits(x.c)
           p == nd - diff
       IN IF p < 0 THEN
            (IF IsZero(x.c) THEN [c |-> <<>>, fl |-> {}]
             ELSE [c |-> IF modefix /\ Inc(ctx.r, x.n, <<>>, -1, TRUE) THEN One ELSE <<>>, fl |-> {F_INEXACT, F_ROUNDED}])
          ELSE LET nc == [ctx EXCEPT !.p = p, !.emin = IF rangefix THEN -LIMIT ELSE ctx.emin, !.emax = IF rangefix THEN LIMIT ELSE ctx.emax]
                   tmp == [f |-> FIN, n |-> x.n, c |-> x.c, e |-> -diff]
                   \* Round even if nc.p = 0 (disableIfPrecisionZero = FALSE): model precision 0 as "keep no digit"
                   r == IF p = 0
                        THEN LET inx == ~IsZero(x.c)
                                 half == IF inx THEN Cmp(Add(x.c, x.c), Pow10(nd)) ELSE -1
                                 one == inx /\ Inc(ctx.r, x.n, <<>>, half, TRUE)
                             IN [c |-> IF one THEN One ELSE <<>>, e |-> 0,
                                 fl |-> (IF nd > 0 THEN {F_ROUNDED} ELSE {}) \cup (IF inx THEN {F_INEXACT} ELSE {})]
                        ELSE LET a == AlgRound(nc, tmp) IN [c |-> a.c, e |-> a.e, fl |-> a.fl]
               IN [c |-> IF r.e > 0 THEN MulPow10(r.c, r.e) ELSE r.c, fl |-> r.fl]          \* 0.9 -> 1.0 roll-over

\* Context.Quantize for finite x: [f, c, e, fl]
AlgQuantizeP(ctx, x, q, modefix, rangefix) ==
  IF q < Etiny(ctx) THEN [f |-> QNAN, c |-> <<>>, e |-> 0, fl |-> {F_INVALID}]
  ELSE LET i == AlgQuantizeInner(ctx, x, q, modefix, rangefix) IN
       IF (~IsZero(i.c) /\ NumDigits(i.c) > ctx.p) \/ NumDigits(i.c) > ctx.p \/ q > ctx.emax
       THEN [f |-> QNAN, c |-> <<>>, e |-> 0, fl |-> {F_INVALID}]
       ELSE LET a == AlgRound(ctx, [f |-> FIN, n |-> x.n, c |-> i.c, e |-> q])
                fl == i.fl \cup a.fl
            IN IF F_OVF \in fl \/ F_UNF \in fl THEN [f |-> QNAN, c |-> <<>>, e |-> 0, fl |-> {F_INVALID}]
               ELSE [f |-> a.f, c |-> a.c, e |-> a.e, fl |-> fl]
AlgQuantize(ctx, x, q) == AlgQuantizeP(ctx, x, q, TRUE, TRUE)
=============================================================================
