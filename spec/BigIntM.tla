------------------------------ MODULE BigIntM ------------------------------
(***************************************************************************)
(* C16: BigInt behaves exactly like math/big.Int.                          *)
(* Signed integers are [n |-> negative, c |-> BigNat]; zero is never       *)
(* negative.  Sem(m, x, y, aux) is the DEFINED result of the arithmetic    *)
(* core; every other method is judged against the math/big mirror that     *)
(* the harness runs in lock-step (DESIGN §6/C16).                          *)
(* Anchors: bigint.go (all methods, inner, updateInner, *Inline).          *)
(***************************************************************************)
EXTENDS BigNat
SInt(n, c) == [n |-> n /\ c # <<>>, c |-> c]
IZero == SInt(FALSE, <<>>)
IsZ(a) == a.c = <<>>
SNeg(a) == SInt(~a.n, a.c)
SAbs(a) == SInt(FALSE, a.c)
SAdd(a, b) == IF a.n = b.n THEN SInt(a.n, Add(a.c, b.c))
              ELSE IF Cmp(a.c, b.c) >= 0 THEN SInt(a.n, Sub(a.c, b.c)) ELSE SInt(b.n, Sub(b.c, a.c))
SSub(a, b) == SAdd(a, SNeg(b))
SMul(a, b) == SInt(a.n # b.n, Mul(a.c, b.c))
\* truncated division (Go's / and %)
SQuo(a, b) == SInt(a.n # b.n, DivMod(a.c, b.c)[1])
SRem(a, b) == SInt(a.n, DivMod(a.c, b.c)[2])
\* Euclidean division (math/big Div, Mod): 0 <= m < |b|
SMod(a, b) == LET r == SRem(a, b) IN IF r.n THEN SAdd(r, SAbs(b)) ELSE r
SDiv(a, b) == LET r == SRem(a, b)  q == SQuo(a, b) IN
              IF r.n THEN (IF b.n THEN SAdd(q, SInt(FALSE, One)) ELSE SSub(q, SInt(FALSE, One))) ELSE q
SCmp(a, b) == IF a.n # b.n THEN (IF a.n THEN -1 ELSE 1)
              ELSE IF a.n THEN Cmp(b.c, a.c) ELSE Cmp(a.c, b.c)
SSign(a) == IF IsZ(a) THEN 0 ELSE IF a.n THEN -1 ELSE 1
Pow2N(k) == PowNat(<<2>>, k)
SLsh(a, k) == SInt(a.n, Mul(a.c, Pow2N(k)))
\* arithmetic shift right = floor division by 2^k
SRsh(a, k) == IF ~a.n THEN SInt(FALSE, DivMod(a.c, Pow2N(k))[1])
              ELSE SInt(TRUE, Add(DivMod(Sub(a.c, One), Pow2N(k))[1], One))
IsSqrtOf(r, x) == ~r.n /\ Cmp(Mul(r.c, r.c), x.c) <= 0 /\ Cmp(Mul(Add(r.c, One), Add(r.c, One)), x.c) > 0
TwoP63 == Pow2N(63)
TwoP64 == Pow2N(64)
FitsInt64(a) == IF a.n THEN Cmp(a.c, TwoP63) <= 0 ELSE Cmp(a.c, TwoP63) < 0
FitsUint64(a) == ~a.n /\ Cmp(a.c, TwoP64) < 0

Modifying == {"Add", "Sub", "Mul", "Quo", "Rem", "Div", "Mod", "And", "Or", "Xor", "AndNot", "GCD", "Neg", "Abs", "Set", "Not",
              "Sqrt", "Lsh", "Rsh", "SetBit0", "SetBit1", "Exp", "ExpMod", "QuoRem", "DivMod", "SetInt64", "SetUint64", "SetString",
              "SetBytes", "MulRange", "Binomial", "SetBitsOf", "ModInverse", "GobRoundTrip", "UnmarshalText", "UnmarshalJSON", "Sscan"}
DivLike == {"Quo", "Rem", "Div", "Mod", "QuoRem", "DivMod"}
\* the defined result of the receiver for the arithmetic core, or "none"
HasSem(m) == m \in {"Add", "Sub", "Mul", "Quo", "Rem", "Div", "Mod", "QuoRem", "DivMod", "Neg", "Abs", "Set", "Lsh", "Rsh", "SetInt64", "SetUint64", "Exp"}
Sem(m, x, y, aux, auxv) ==
  CASE m = "Add" -> SAdd(x, y) [] m = "Sub" -> SSub(x, y) [] m = "Mul" -> SMul(x, y)
    [] m \in {"Quo", "QuoRem"} -> SQuo(x, y) [] m = "Rem" -> SRem(x, y)
    [] m \in {"Div", "DivMod"} -> SDiv(x, y) [] m = "Mod" -> SMod(x, y)
    [] m = "Neg" -> SNeg(x) [] m = "Abs" -> SAbs(x) [] m = "Set" -> SInt(x.n, x.c)
    [] m = "Lsh" -> SLsh(x, aux) [] m = "Rsh" -> SRsh(x, aux)
    [] m \in {"SetInt64", "SetUint64"} -> SInt(auxv.n, auxv.c)
    [] m = "Exp" -> SInt(x.n /\ aux % 2 = 1, PowNat(x.c, aux))
    [] OTHER -> IZero
Sem2(m, x, y) == IF m = "QuoRem" THEN SRem(x, y) ELSE SMod(x, y)     \* second result of QuoRem / DivMod
=============================================================================
