-------------------------------- MODULE Conv --------------------------------
(***************************************************************************)
(* C17 / C13: exact conversions.  A float64 is the exact dyadic rational   *)
(* m * 2^k given as [cls, n, m, k] (cls: "zero" "fin" "inf" "nan"; m the   *)
(* 53-bit integer significand as a BigNat; k in -1074..971).               *)
(* Anchors: decimal.go Int64, Float64, SetFloat64, Modf, New, SetInt64,    *)
(*          NewWithBigInt, SetFinite; decomposer.go.                       *)
(***************************************************************************)
EXTENDS DecBase
Two == <<2>>
Pow2(j) == PowNat(Two, j)
MaxInt64 == <<807, 775, 854, 36, 372, 223, 9>>          \* 9223372036854775807
MinInt64Mag == <<808, 775, 854, 36, 372, 223, 9>>       \* 9223372036854775808

IsIntegerD(d) == d.e >= 0 \/ IsZero(ModPow10(d.c, -d.e))
IntMag(d) == IF d.e >= 0 THEN MulPow10(d.c, d.e) ELSE DropDigits(d.c, -d.e)[1]
\* [ok, n, c]: the int64 value of d or failure
Int64Spec(d) ==
  IF d.f # FIN \/ ~IsIntegerD(d) THEN [ok |-> FALSE, n |-> FALSE, c |-> <<>>]
  ELSE IF d.e + NumDigits(d.c) > 25 /\ ~IsZero(d.c) THEN [ok |-> FALSE, n |-> FALSE, c |-> <<>>]
  ELSE LET m == IntMag(d) IN
       IF IsZero(m) THEN [ok |-> TRUE, n |-> FALSE, c |-> <<>>]
       ELSE IF (d.n /\ Cmp(m, MinInt64Mag) <= 0) \/ (~d.n /\ Cmp(m, MaxInt64) <= 0) THEN [ok |-> TRUE, n |-> d.n, c |-> m]
       ELSE [ok |-> FALSE, n |-> FALSE, c |-> <<>>]

\* compare c*10^e with n*2^j   (-1, 0, 1), all naturals
CmpDecDy(c, e, n, j) ==
  LET l == IF j < 0 THEN Mul(c, Pow2(-j)) ELSE c
      r == IF j > 0 THEN Mul(n, Pow2(j)) ELSE n
  IN IF e >= 0 THEN Cmp(MulPow10(l, e), r) ELSE Cmp(l, MulPow10(r, -e))

TwoP52 == Pow2(52)
TwoP53 == Pow2(53)
\* the finite float m*2^k (m > 0) is the float64 nearest to c*10^e, ties to even
\* lower neighbour gap is half as wide when m = 2^52 and k > -1074
NearestFin(c, e, m, k) ==
  LET m2 == Add(m, m)
      binade == m = TwoP52 /\ k > -1074
      \* hi bound (2m+1)*2^(k-1); lo bound (2m-1)*2^(k-1) or (4m-1)*2^(k-2)
      hiC == CmpDecDy(c, e, Add(m2, One), k - 1)
      loC == IF binade THEN CmpDecDy(c, e, Sub(Add(m2, m2), One), k - 2) ELSE CmpDecDy(c, e, Sub(m2, One), k - 1)
      even == ~IsOdd(m)
  IN /\ (hiC < 0 \/ (hiC = 0 /\ even))
     /\ (loC > 0 \/ (loC = 0 /\ even))
     /\ (Cmp(m, TwoP53) < 0)
     /\ (k > -1074 => Cmp(m, TwoP52) >= 0)
\* largest finite: (2^53-1)*2^971 ; overflow threshold (2^54-1)*2^970
OverflowsF(c, e) == CmpDecDy(c, e, Sub(Pow2(54), One), 970) >= 0
\* rounds to zero: v <= 2^-1075 (tie to even = 0)
UnderflowsF(c, e) == CmpDecDy(c, e, One, -1075) <= 0
\* f == [cls, n, m, k] is the float64 nearest to the decimal d (finite or infinite)
NearestFloat(d, f) ==
  IF d.f = INF THEN f.cls = "inf" /\ f.n = d.n
  ELSE IF IsZero(d.c) THEN f.cls = "zero" /\ f.n = d.n
  ELSE LET adj == Adj(d) IN
       IF adj > 400 THEN f.cls = "inf" /\ f.n = d.n
       ELSE IF adj < -400 THEN f.cls = "zero" /\ f.n = d.n
       ELSE IF OverflowsF(d.c, d.e) THEN f.cls = "inf" /\ f.n = d.n
       ELSE IF UnderflowsF(d.c, d.e) THEN f.cls = "zero" /\ f.n = d.n
       ELSE f.cls = "fin" /\ f.n = d.n /\ NearestFin(d.c, d.e, f.m, f.k)

\* d is the SHORTEST decimal that converts back to the finite float f (C13)
Shortest(d, f) ==
  LET nd == NumDigits(d.c)
      lo == DropDigits(d.c, 1)[1]                       \* the two (nd-1)-digit neighbours
      hi == Add(lo, One)
  IN /\ LastDigit(d.c) # 0 \/ nd = 1
     /\ nd > 1 => (~NearestFin(lo, d.e + 1, f.m, f.k) /\ ~NearestFin(hi, d.e + 1, f.m, f.k))

\* Modf (C17)
ModfOK(d, hasI, integ, hasF, frac) ==
  LET iv == IF hasI THEN integ ELSE [f |-> FIN, n |-> d.n, c |-> IntMag(d), e |-> 0]
      fv == IF hasF THEN frac ELSE [f |-> FIN, n |-> d.n, c |-> <<>>, e |-> 0]
      m == IF iv.e < fv.e THEN iv.e ELSE fv.e
      sum == Add(MulPow10(iv.c, iv.e - m), MulPow10(fv.c, fv.e - m))
  IN /\ hasI => (integ.f = FIN /\ integ.n = d.n /\ integ.e >= 0 /\ integ.cs >= 0
                 /\ NumEq(integ.c, integ.e, IntMag(d), 0))
     /\ hasF => (frac.f = FIN /\ frac.n = d.n /\ frac.cs >= 0
                 /\ CmpMag(frac.c, frac.e, One, 0) < 0)
     /\ hasF => NumEq(sum, m, d.c, d.e)              \* integ (observed, or the true integral part) + frac = d
=============================================================================
