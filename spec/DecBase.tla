------------------------------ MODULE DecBase ------------------------------
(***************************************************************************)
(* Abstract decimals, contexts and conditions.                             *)
(*   Decimal  == [f, n, c, e]   f: 0 finite, 1 infinite, 2 sNaN, 3 NaN     *)
(*                              n: negative, c: BigNat coefficient, e: exp *)
(*   Context  == [p, emax, emin, r, t]  r: rounding mode name ("" default) *)
(*                              t: trap set as a bit mask                  *)
(* The encodings are the projection of apd.Decimal / apd.Context written   *)
(* by the harness (harness/enc.go).                                        *)
(***************************************************************************)
EXTENDS BigNat

FIN == 0  INF == 1  SNAN == 2  QNAN == 3

\* condition bits (apd/condition.go order)
F_SYSOVF == 1      F_SYSUNF == 2     F_OVF == 4        F_UNF == 8
F_INEXACT == 16    F_SUBN == 32      F_ROUNDED == 64   F_DIVUNDEF == 128
F_DIVZERO == 256   F_DIVIMP == 512   F_INVALID == 1024 F_CLAMPED == 2048
AllBits == {1, 2, 4, 8, 16, 32, 64, 128, 256, 512, 1024, 2048}
Bit(fl, b) == (fl \div b) % 2 = 1
BitSet(fl) == {b \in AllBits : Bit(fl, b)}
And(f1, f2) == LET s == BitSet(f1) \cap BitSet(f2) IN
               (IF 1 \in s THEN 1 ELSE 0) + (IF 2 \in s THEN 2 ELSE 0) + (IF 4 \in s THEN 4 ELSE 0)
             + (IF 8 \in s THEN 8 ELSE 0) + (IF 16 \in s THEN 16 ELSE 0) + (IF 32 \in s THEN 32 ELSE 0)
             + (IF 64 \in s THEN 64 ELSE 0) + (IF 128 \in s THEN 128 ELSE 0) + (IF 256 \in s THEN 256 ELSE 0)
             + (IF 512 \in s THEN 512 ELSE 0) + (IF 1024 \in s THEN 1024 ELSE 0) + (IF 2048 \in s THEN 2048 ELSE 0)

Modes == {"down", "half_up", "half_even", "ceiling", "floor", "half_down", "up", "05up"}
LIMIT == 100000

Fin(d) == d.f = FIN
IsInf(d) == d.f = INF
IsNaNForm(d) == d.f = SNAN \/ d.f = QNAN
ZeroD(d) == Fin(d) /\ IsZero(d.c)
Adj(d) == d.e + NumDigits(d.c) - 1
Etiny(ctx) == ctx.emin - ctx.p + 1
Abs(i) == IF i < 0 THEN -i ELSE i

\* the quantifier domain of the properties
WFDecimal(d) == /\ d.f \in {FIN, INF, SNAN, QNAN}
                /\ IsNat(d.c)
                /\ d.e \in (-LIMIT)..LIMIT
                /\ Adj(d) \in (-LIMIT)..LIMIT
WFContext(ctx) == /\ ctx.p >= 0
                  /\ ctx.emin \in (-LIMIT)..0
                  /\ ctx.emax \in 0..LIMIT
                  /\ ctx.p <= ctx.emax
                  /\ ctx.r \in Modes \cup {""}
                  /\ ctx.t \in 0..4095

\* numeric equality of c1*10^e1 and c2*10^e2 (magnitudes)
NumEq(c1, e1, c2, e2) ==
  IF IsZero(c1) \/ IsZero(c2) THEN IsZero(c1) /\ IsZero(c2)
  ELSE IF NumDigits(c1) + e1 # NumDigits(c2) + e2 THEN FALSE
  ELSE IF e1 >= e2 THEN MulPow10(c1, e1 - e2) = c2 ELSE c1 = MulPow10(c2, e2 - e1)

\* compare magnitudes c1*10^e1 ? c2*10^e2  (-1, 0, 1); never builds 10^gap for far-apart values
CmpMag(c1, e1, c2, e2) ==
  IF IsZero(c1) /\ IsZero(c2) THEN 0
  ELSE IF IsZero(c1) THEN -1
  ELSE IF IsZero(c2) THEN 1
  ELSE LET a1 == NumDigits(c1) + e1
           a2 == NumDigits(c2) + e2
       IN IF a1 < a2 THEN -1 ELSE IF a1 > a2 THEN 1
          ELSE IF e1 >= e2 THEN Cmp(MulPow10(c1, e1 - e2), c2) ELSE Cmp(c1, MulPow10(c2, e2 - e1))

\* sign of the exact difference x - y for non-NaN x, y (zeros of either sign are equal)
CmpSpec(x, y) ==
  LET sx == IF ZeroD(x) THEN 0 ELSE IF x.n THEN -1 ELSE 1
      sy == IF ZeroD(y) THEN 0 ELSE IF y.n THEN -1 ELSE 1
  IN IF sx # sy THEN (IF sx < sy THEN -1 ELSE 1)
     ELSE IF sx = 0 THEN 0
     ELSE IF IsInf(x) /\ IsInf(y) THEN 0
     ELSE IF IsInf(x) THEN sx
     ELSE IF IsInf(y) THEN -sx
     ELSE sx * CmpMag(x.c, x.e, y.c, y.e)

\* abstract equality: identical representation (form, sign and, if finite, coefficient and exponent)
AbsEq(a, b) == a.f = b.f /\ a.n = b.n /\ (a.f = FIN => (a.c = b.c /\ a.e = b.e))
\* same decimal as observed (also for NaN payload-free decimals)
SameRepr(a, b) == a.f = b.f /\ a.n = b.n /\ a.c = b.c /\ a.e = b.e
=============================================================================
