INIT Init
NEXT Next
CONSTANTS NMax = 6
  Bs = {1, 3, 7, 999, 9995}
  Wide = FALSE
  CarryFix = FALSE
  StickyFix = TRUE
INVARIANT Refines
CHECK_DEADLOCK FALSE
