INIT Init
NEXT Next
CONSTANTS NMax = 12
  Ds = {1, 3, 7}
  ELo = 3
  EHi = 2
INVARIANTS Relational FitsThm FlagThm Idem Mono Bracket
CHECK_DEADLOCK FALSE
