------------------------------- MODULE Trace -------------------------------
(***************************************************************************)
(* Code -> spec: validation of events recorded from the real code.         *)
(* The harness writes one JSON object per event into trace.ndjson; this    *)
(* module steps through the file and judges every event with the           *)
(* specification's definitions.  A rejected event is reported as           *)
(*     <<"VIOL", line, {failed conjuncts}>>                                *)
(* and validation continues, so one run reports every rejection.           *)
(* The orchestrator (bin/check) attributes failed conjuncts to properties. *)
(***************************************************************************)
EXTENDS Arith, Order, Json
T == ndJsonDeserialize("trace.ndjson")
VARIABLE l

Names(seq) == {seq[i][1] : i \in {j \in 1..Len(seq) : ~seq[j][2]}}

\* an operand is near enough to the package limits that the documented
\* "exponent out of range" outcome is admitted (DESIGN 3.4-3)
NearLimit(d) == d.f = FIN /\ Abs(d.e) + NumDigits(d.c) > 33000
SysFlag(ev) == Bit(ev.fl, F_SYSOVF) \/ Bit(ev.fl, F_SYSUNF) \/ ev.err = "exponent out of range"
SysAdmit(ev) == NearLimit(ev.x) \/ NearLimit(ev.y) \/ Abs(ev.q) > 33000

RoundingOps == {"add", "sub", "mul", "quo", "abs", "neg", "round", "rem", "reduce", "quantize",
                "sqrt", "cbrt", "exp", "ln", "log10", "pow"}

Composite == {"sqrt", "cbrt", "exp", "ln", "log10", "pow"}
\* ---------------- family "a": one Context call ----------------
Verdict_a(ev) ==
  LET got == ev.res
      w == Want(ev.op, ev.ctx, ev.x, ev.y, ev.q)
      trapped == And(ev.fl, ev.ctx.t) # 0
      \* a composite function that returns an error leaves an unspecified destination (C03)
      delivered == ev.err = "" \/ ev.op \notin Composite
  IN IF ev.panic # "" THEN {"panic"}
     ELSE IF SysFlag(ev) THEN (IF SysAdmit(ev) THEN {} ELSE {"sys"})
     ELSE Names(<<
       <<"wf",    got.f \in {FIN, INF, SNAN, QNAN} /\ got.cs >= 0 /\ IsNat(got.c)>>,
       <<"err",   (ev.err # "") = trapped \/ w.k = "skip" \/ ev.op \in Composite>>,
       <<"val",   delivered => ValueOK(w, got)>>,
       <<"exp",   (w.k = "fin" /\ got.f = FIN) =>
                     /\ (ev.op = "quantize" => got.e = ev.q)
                     /\ (ev.op = "quoint" => got.e = 0)
                     /\ (ev.op \in {"tointx", "tointv"} => (got.e = 0 \/ (got.e > 0 /\ ev.x.e > 0)))
                     /\ (ev.op = "reduce" => (IF IsZero(got.c) THEN got.e = 0 ELSE LastDigit(got.c) # 0))>>,
       <<"flags", FlagsOK(ev.op, w, got, ev.fl)>>,
       <<"flagimp", FlagImpOK(got, ev.fl)>>,
       <<"rnd",   (w.k = "fin" /\ ev.op \in {"quantize", "tointx"} /\ ~IsZero(ev.x.c)) =>
                     (Bit(ev.fl, F_ROUNDED) = (ev.x.e < ev.q))>>,
       <<"nbits", ev.fl \in 0..4095>>,
       <<"fits",  (delivered /\ (ev.op \in RoundingOps \/ ev.op = "quoint")) => Fits(ev.ctx, got)>>,
       <<"cnt",   (ev.op = "reduce" /\ w.k = "fin" /\ got.f = FIN) =>
                     (IF IsZero(ev.x.c) THEN ev.cnt = 0
                      ELSE ((NumDigits(ev.x.c) <= ev.ctx.p /\ ev.x.e >= Etiny(ev.ctx)) \/ ev.ctx.p = 0) => ev.cnt = TrailingZeros(ev.x.c))>>,
       <<"frame", /\ (ev.al \notin {"dx", "dxy"} => SameRepr(ev.xa, ev.x))
                  /\ (ev.al \notin {"dy", "dxy", "xy"} => SameRepr(ev.ya, ev.y))
                  /\ (ev.al = "xy" => SameRepr(ev.ya, ev.x))>> >>)

\* ---------------- family "o": comparisons (C15) ----------------
Verdict_o(ev) ==
  IF ev.panic # "" THEN {"panic"}
  ELSE LET nan == IsNaNForm(ev.x) \/ IsNaNForm(ev.y)
           w == Want("cmp", [p |-> 0, emax |-> LIMIT, emin |-> -LIMIT, r |-> "", t |-> 0], ev.x, ev.y, 0)
       IN Names(<<
       <<"cmp",    ~nan => ev.cmp = CmpSpec(ev.x, ev.y)>>,
       <<"total",  ev.tot = CmpTotalSpec(ev.x, ev.y)>>,
       <<"ctxcmp", ValueOK(w, ev.cres) /\ (w.k = "fin" => (ev.cres.e = 0 /\ ev.cfl = 0)) /\ (w.k = "nan" => ev.cfl = w.fl)>>,
       <<"frame",  SameRepr(ev.xa, ev.x) /\ SameRepr(ev.ya, ev.y)>> >>)

\* observed matrices: the order axioms on what the code returned, no oracle
Verdict_om(ev) ==
  LET n == Len(ev.vals)  I == 1..n IN
  Names(<<
    <<"antisym", \A i, j \in I : ev.tot[i][j] = -ev.tot[j][i]>>,
    <<"trans",   \A i, j, k \in I : (ev.tot[i][j] <= 0 /\ ev.tot[j][k] <= 0) => ev.tot[i][k] <= 0>>,
    <<"zero-iff-same", \A i, j \in I : (ev.tot[i][j] = 0) <=> AbsEq(ev.vals[i], ev.vals[j])>>,
    <<"cmp-antisym", \A i, j \in I : ev.cmp[i][j] # 99 => ev.cmp[i][j] = -ev.cmp[j][i]>>,
    <<"cmp-trans", \A i, j, k \in I : (ev.cmp[i][j] # 99 /\ ev.cmp[j][k] # 99 /\ ev.cmp[i][k] # 99 /\ ev.cmp[i][j] <= 0 /\ ev.cmp[j][k] <= 0) => ev.cmp[i][k] <= 0>>,
    <<"agree", \A i, j \in I : (ev.cmp[i][j] # 99 /\ ev.cmp[i][j] # 0) => ev.tot[i][j] = ev.cmp[i][j]>> >>)

\* ---------------- family "nd": NumDigits (C19) ----------------
Verdict_nd(ev) == IF ev.panic # "" THEN {"panic"} ELSE Names(<< <<"numdigits", ev.nd = NumDigits(ev.b)>> >>)

Verdict(ev) ==
  CASE ev.k = "a" -> Verdict_a(ev)
    [] ev.k = "nd" -> Verdict_nd(ev)
    [] ev.k = "o" -> Verdict_o(ev)
    [] ev.k = "om" -> Verdict_om(ev)
    [] OTHER -> {"unknown-family"}

Init == l = 0
Next == l < Len(T) /\ l' = l + 1
Inv == l = 0 \/ LET v == Verdict(T[l]) IN (v = {} \/ PrintT(<<"VIOL", l, v>>))
Done == PrintT(<<"VALIDATED", Len(T)>>)
=============================================================================
