------------------------------- MODULE Trace -------------------------------
(***************************************************************************)
(* Code -> spec: validation of events recorded from the real code.         *)
(* The harness writes one JSON object per event into trace.ndjson; this    *)
(* module steps through the file and judges every event with the           *)
(* specification's definitions.  A rejected event is reported as           *)
(*     <<"VIOL", line, {failed conjuncts}>>                                *)
(* and validation continues, so one run reports every rejection.           *)
(* The orchestrator (bin/check) attributes failed conjuncts to properties. *)
(***************************************************************************)
EXTENDS Arith, AlgArith, AlgQuo, AlgQuantize, AlgNumDigits, Order, Text, Conv, BigIntM, ErrDec, Roots, Transc, Json
T == ndJsonDeserialize("trace.ndjson")
VARIABLE l

Names(seq) == {seq[i][1] : i \in {j \in 1..Len(seq) : ~seq[j][2]}}

\* an operand is near enough to the package limits that the documented
\* "exponent out of range" outcome is admitted (DESIGN 3.4-3)
NearLimit(d) == d.f = FIN /\ Abs(d.e) + NumDigits(d.c) > 33000
SysFlag(ev) == Bit(ev.fl, F_SYSOVF) \/ Bit(ev.fl, F_SYSUNF) \/ ev.err = "exponent out of range"
SysAdmit(ev) == NearLimit(ev.x) \/ NearLimit(ev.y) \/ Abs(ev.q) > 33000
                \/ (ev.op = "pow" /\ ev.y.f = FIN /\ NumDigits(ev.y.c) + ev.y.e >= 3)    \* |y| >= 100: x**y can leave the +-100000 range

RoundingOps == {"add", "sub", "mul", "quo", "abs", "neg", "round", "rem", "reduce", "quantize",
                "sqrt", "cbrt", "exp", "ln", "log10", "pow"}

Composite == {"sqrt", "cbrt", "exp", "ln", "log10", "pow"}
\* ---------------- C12: Exp / Ln / Log10 / Pow within one unit in the last place ----------------
\* integer power checks are exact; fractional powers use the harness's untrusted hint for ln x, verified first
OutOfNormal(ev) == \/ ev.res.f # FIN \/ IsZero(ev.res.c) \/ Bit(ev.fl, F_SUBN) \/ Bit(ev.fl, F_OVF) \/ Bit(ev.fl, F_UNF)
                   \/ Adj(ev.res) < ev.ctx.emin \/ Adj(ev.res) > ev.ctx.emax
PNorm(R, er, p) == IF NumDigits(R) >= p THEN <<R, er>> ELSE <<MulPow10(R, p - NumDigits(R)), er - (p - NumDigits(R))>>
IntPowOK(ev) ==          \* y an integer with |y| <= 64: exact rational comparison
  LET x == ev.x  y == ev.y  got == ev.res  p == ev.ctx.p
      n == ToInt(IntMag(y))
      XN == PowNat(x.c, n)  en == x.e * n                         \* |x|^|y| = XN * 10^en
      s == PNorm(got.c, got.e, p)
      neg == x.n /\ n % 2 = 1
  IN /\ got.n = neg
     /\ IF ~y.n
        THEN /\ (NumDigits(XN) - TrailingZeros(XN) <= p => NumEq(got.c, got.e, XN, en))     \* exact value fits: returned exactly
             /\ CmpMag(Sub(s[1], One), s[2], XN, en) <= 0 /\ CmpMag(XN, en, Add(s[1], One), s[2]) <= 0
        ELSE \* (R-1)*10^er * XN*10^en <= 1 <= (R+1)*10^er * XN*10^en
             /\ CmpMag(Mul(Sub(s[1], One), XN), s[2] + en, One, 0) <= 0
             /\ CmpMag(One, 0, Mul(Add(s[1], One), XN), s[2] + en) <= 0
TranscOK(ev) ==
  LET x == ev.x  got == ev.res  p == ev.ctx.p IN
  CASE ev.op = "exp" ->
         IF got.f = INF THEN ~got.n /\ ExpOverflowOK(x.n, x.c, x.e, ev.ctx)
         ELSE IF got.f # FIN \/ got.n THEN FALSE
         ELSE IF IsZero(got.c) \/ Bit(ev.fl, F_UNF) \/ Bit(ev.fl, F_SUBN) THEN ExpUnderflowOK(x.n, x.c, x.e, ev.ctx)
         ELSE ExpOK(x.n, x.c, x.e, got.c, got.e, p)
    [] ev.op \in {"ln", "log10"} ->
         IF got.f = INF \/ Bit(ev.fl, F_OVF)                           \* an overflow claim: the logarithm must really be that large
         THEN got.f = INF /\ got.n = (CmpMag(x.c, x.e, One, 0) < 0) /\ LogOverflowOK(ev.op = "ln", x.c, x.e, ev.ctx)
         ELSE IF got.f # FIN THEN FALSE                                 \* the logarithm of a finite positive number is a number
         ELSE IF IsZero(got.c) \/ Bit(ev.fl, F_SUBN) \/ Bit(ev.fl, F_UNF) \/ Adj(got) < ev.ctx.emin
         THEN LogTinyOK(ev.op = "ln", x.c, x.e, ev.ctx)                 \* a zero / sub-normal claim: really below 10^Emin
         ELSE IF Adj(got) > ev.ctx.emax THEN TRUE                       \* C07's business
         ELSE IF ev.op = "ln" THEN LnOK(x.c, x.e, got.n, got.c, got.e, p)
         ELSE Log10OK(x.c, x.e, got.n, got.c, got.e, p)
    [] ev.op = "pow" ->
         IF OutOfNormal(ev) THEN TRUE
         ELSE IF IsIntegerD(ev.y) /\ (ev.y.e + NumDigits(ev.y.c) <= 2) /\ Cmp(IntMag(ev.y), <<64>>) <= 0
                 /\ NumDigits(x.c) * ToInt(IntMag(ev.y)) <= 400 THEN IntPowOK(ev)
         ELSE IF x.n \/ ev.h.f # FIN THEN TRUE                                             \* no hint: not judged
         ELSE IF ~HintOK(x.c, x.e, ev.h.n, ev.h.c, ev.h.e) THEN TRUE \/ PrintT(<<"UNDECIDED-HINT", ev.op>>)
         ELSE ~got.n /\ PowOK(ev.y.n, ev.y.c, ev.y.e, ev.h.n, ev.h.c, ev.h.e, got.c, got.e, p)
    [] OTHER -> TRUE
\* ---------------- family "a": one Context call ----------------
\* Decimal.Neg / Abs / Set / Reduce: no Context, no rounding, no NaN prologue (C05, C06, C19)
DOps == {"dneg", "dabs", "dset", "dreduce"}
Verdict_d(ev) ==
  LET x == ev.x  got == ev.res
      wantN == CASE ev.op = "dabs" -> FALSE
                 [] ev.op = "dneg" -> IF ZeroD(x) THEN FALSE ELSE ~x.n
                 [] ev.op = "dreduce" -> IF ZeroD(x) THEN FALSE ELSE x.n
                 [] OTHER -> x.n
  IN IF ev.panic # "" THEN {"panic"}
     ELSE Names(<<
       <<"wf",    got.f \in {FIN, INF, SNAN, QNAN} /\ got.cs >= 0>>,
       <<"dval",  /\ got.f = x.f /\ got.n = wantN /\ ev.fl = 0 /\ ev.err = ""
                  /\ (x.f = FIN => IF ev.op = "dreduce"
                                   THEN /\ NumEq(got.c, got.e, x.c, x.e)
                                        /\ (IF IsZero(got.c) THEN got.e = 0 ELSE LastDigit(got.c) # 0)
                                        /\ ev.cnt = (IF IsZero(x.c) THEN 0 ELSE TrailingZeros(x.c))
                                   ELSE got.c = x.c /\ got.e = x.e)>>,
       <<"ctxframe", ev.ctxa = ev.ctx>>,
       <<"frame", /\ (ev.al \notin {"dx", "dxy"} => SameRepr(ev.xa, ev.x))>> >>)

Verdict_a(ev) ==
  IF ev.op \in DOps THEN Verdict_d(ev) ELSE
  LET got == ev.res
      w == Want(ev.op, ev.ctx, ev.x, ev.y, ev.q)
      trapped == And(ev.fl, ev.ctx.t) # 0
      \* a composite function that returns an error leaves an unspecified destination (C03)
      delivered == ev.err = "" \/ ev.op \notin Composite
  IN IF ev.panic # "" THEN {"panic"}
     ELSE IF SysFlag(ev) THEN (IF SysAdmit(ev) THEN {} ELSE {"sys"})
     ELSE Names(<<
       <<"wf",    got.f \in {FIN, INF, SNAN, QNAN} /\ got.cs >= 0 /\ IsNat(got.c)>>,
       <<"err",   (ev.err # "") = trapped \/ w.k = "skip" \/ ev.op \in Composite>>,
       <<"val",   delivered => ValueOK(w, got)>>,
       <<"exp",   (w.k = "fin" /\ got.f = FIN) =>
                     /\ (ev.op = "quantize" => got.e = ev.q)
                     /\ (ev.op = "quoint" => got.e = 0)
                     /\ (ev.op \in {"tointx", "tointv"} => (got.e = 0 \/ (got.e > 0 /\ ev.x.e > 0)))
                     /\ (ev.op = "reduce" => (IF IsZero(got.c) THEN got.e = 0 ELSE LastDigit(got.c) # 0))>>,
       <<"root",  (ev.op \in {"sqrt", "cbrt"} /\ w.k = "skip" /\ ev.x.f = FIN /\ ev.err = "" /\ ev.ctx.p > 0) =>
                     \/ (got.f = INF /\ Bit(ev.fl, F_OVF) /\ got.n = ev.x.n)                                    \* overflow: not claimed
                     \/ /\ got.f = FIN /\ got.n = ev.x.n
                        /\ (\/ (ev.op = "sqrt" /\ Bit(ev.fl, F_SUBN) /\ ~Bit(ev.fl, F_OVF)             \* sub-normal square roots: rounded once to Etiny
                              /\ SqrtSubOK(ev.x.c, ev.x.e, got.c, got.e, Etiny(ev.ctx), Bit(ev.fl, F_INEXACT)))
                         \/ (ev.op = "cbrt" /\ (IsZero(got.c) \/ Bit(ev.fl, F_SUBN) \/ Adj(got) < ev.ctx.emin))   \* Cbrt below the normal range: not claimed
                         \/ Adj(got) > ev.ctx.emax \/ Bit(ev.fl, F_OVF)                                      \* overflow: not claimed (DESIGN C11)
                         \/ IF ev.op = "sqrt" THEN SqrtOK(ev.x.c, ev.x.e, got.c, got.e, ev.ctx.p, Bit(ev.fl, F_INEXACT))
                            ELSE CbrtOK(ev.x.c, ev.x.e, got.c, got.e, ev.ctx.p, Bit(ev.fl, F_INEXACT)))>>,
       <<"transc", (ev.op \in {"exp", "ln", "log10", "pow"} /\ w.k = "skip" /\ ev.err = "" /\ ev.ctx.p > 0) => TranscOK(ev)>>,
       <<"flags", FlagsOK(ev.op, w, got, ev.fl)>>,
       <<"flagimp", IF ev.op \in {"exp", "ln", "log10", "pow"}      \* these set Inexact unconditionally (source TODO: "exact under some conditions"), also on an unrounded exact result
                   THEN FlagImpRangeOK(ev.fl) ELSE FlagImpOK(got, ev.fl)>>,
       <<"rnd",   (w.k = "fin" /\ ev.op \in {"quantize", "tointx"} /\ ~IsZero(ev.x.c)) =>
                     (Bit(ev.fl, F_ROUNDED) = (ev.x.e < (IF ev.op = "quantize" THEN ev.q ELSE 0)))>>,
       <<"nbits", ev.fl \in 0..4095>>,
       <<"fits",  (delivered /\ (ev.op \in RoundingOps \/ ev.op = "quoint")) => Fits(ev.ctx, got)>>,
       <<"cnt",   (ev.op = "reduce" /\ w.k = "fin" /\ got.f = FIN) =>
                     (IF IsZero(ev.x.c) THEN ev.cnt = 0
                      ELSE ((NumDigits(ev.x.c) <= ev.ctx.p /\ ev.x.e >= Etiny(ev.ctx)) \/ ev.ctx.p = 0) => ev.cnt = TrailingZeros(ev.x.c))>>,
       <<"ctxframe", ev.ctxa = ev.ctx>>,
       <<"frame", /\ (ev.al \notin {"dx", "dxy"} => SameRepr(ev.xa, ev.x))
                  /\ (ev.al \notin {"dy", "dxy", "xy"} => SameRepr(ev.ya, ev.y))
                  /\ (ev.al = "xy" => SameRepr(ev.ya, ev.x))>> >>)

\* ---------------- family "o": comparisons (C15) ----------------
Verdict_o(ev) ==
  IF ev.panic # "" THEN {"panic"}
  ELSE LET nan == IsNaNForm(ev.x) \/ IsNaNForm(ev.y)
           w == Want("cmp", [p |-> 0, emax |-> LIMIT, emin |-> -LIMIT, r |-> "", t |-> 0], ev.x, ev.y, 0)
       IN Names(<<
       <<"cmp",    ~nan => ev.cmp = CmpSpec(ev.x, ev.y)>>,
       <<"total",  IF IsNaNForm(ev.x) /\ Rank(ev.x) = Rank(ev.y) /\ ev.x.c # ev.y.c
                   THEN ev.tot # 0                       \* NaNs of one kind and sign with different payloads: some strict order
                   ELSE ev.tot = CmpTotalSpec(ev.x, ev.y)>>,
       <<"ctxcmp", ValueOK(w, ev.cres) /\ (w.k = "fin" => (ev.cres.e = 0 /\ ev.cfl = 0)) /\ (w.k = "nan" => ev.cfl = w.fl)>>,
       <<"frame",  SameRepr(ev.xa, ev.x) /\ SameRepr(ev.ya, ev.y)>> >>)

\* observed matrices: the order axioms on what the code returned, no oracle
Verdict_om(ev) ==
  LET n == Len(ev.vals)  I == 1..n IN
  Names(<<
    <<"antisym", \A i, j \in I : ev.tot[i][j] = -ev.tot[j][i]>>,
    <<"trans",   \A i, j, k \in I : (ev.tot[i][j] <= 0 /\ ev.tot[j][k] <= 0) => ev.tot[i][k] <= 0>>,
    <<"zero-iff-same", \A i, j \in I : (ev.tot[i][j] = 0) <=>
                          (AbsEq(ev.vals[i], ev.vals[j]) /\ (IsNaNForm(ev.vals[i]) => ev.vals[i].c = ev.vals[j].c))>>,
    <<"cmp-antisym", \A i, j \in I : ev.cmp[i][j] # 99 => ev.cmp[i][j] = -ev.cmp[j][i]>>,
    <<"cmp-trans", \A i, j, k \in I : (ev.cmp[i][j] # 99 /\ ev.cmp[j][k] # 99 /\ ev.cmp[i][k] # 99 /\ ev.cmp[i][j] <= 0 /\ ev.cmp[j][k] <= 0) => ev.cmp[i][k] <= 0>>,
    <<"agree", \A i, j \in I : (ev.cmp[i][j] # 99 /\ ev.cmp[i][j] # 0) => ev.tot[i][j] = ev.cmp[i][j]>> >>)

\* ---------------- family "nd": NumDigits (C19) ----------------
Verdict_nd(ev) == IF ev.panic # "" THEN {"panic"}
                  ELSE Names(<< <<"numdigits", ev.nd = (IF ev.p10 >= 0 THEN (IF ev.dl < 0 THEN ev.p10 ELSE ev.p10 + 1)      \* |10^k + dl|, dl small
                                                        ELSE NumDigits(ev.b))>> >>)

\* ---------------- family "t": text forms (C13 C14, parsing part of C01 C04 C07) ----------------
WFParsed(d) == d.f \in {FIN, INF, SNAN, QNAN} /\ d.cs >= 0 /\ IsNat(d.c)
               /\ d.e \in (-LIMIT)..LIMIT /\ (d.f = FIN => Adj(d) \in (-LIMIT)..LIMIT)
Verdict_t(ev) ==
  IF ev.panic # "" THEN {"panic"}
  ELSE CASE ev.tk = "parse" ->
         LET p == ParseSpec(ev.s)
             cls == IF p.ok THEN LimitClass(p) ELSE "reject"
         IN Names(<<
              <<"accept",    (cls \in {"reject", "outside"} => ~ev.ok) /\ (cls = "inside" => ev.ok)>>,
              <<"nilret",    (~ev.ok /\ cls \in {"reject", "outside"}) => ev.nilret>>,
              <<"parse-val", (ev.ok /\ p.ok) => AbsEq(ev.res, p)>>,
              <<"parse-pre", ev.ok => (SameRepr(ev.res, ev.res2) /\ ev.res2.cs = ev.res.cs)>>,
              <<"parse-wf",  ev.ok => WFParsed(ev.res)>> >>)
       [] ev.tk = "ctxparse" ->
         LET p == ParseSpec(ev.s)
             cls == IF p.ok THEN LimitClass(p) ELSE "reject"
             w == IF ~p.ok \/ cls # "inside" THEN Skip
                  ELSE IF p.f = FIN THEN Rnd(ev.ctx, p.n, p.c, One, p.e)
                  ELSE [k |-> "form", n |-> p.n, na |-> FALSE, c |-> <<>>, e |-> 0, fl |-> 0]
         IN Names(<<
              <<"accept",    (cls \in {"reject", "outside"} => ~ev.ok) /\ (cls = "inside" => ev.ok)>>,
              <<"cp-val",    (ev.ok /\ cls = "inside") =>
                                IF w.k = "form" THEN ev.res.f = p.f /\ ev.res.n = p.n ELSE ValueOK(w, ev.res)>>,
              <<"cp-flags",  (ev.ok /\ cls = "inside" /\ w.k \notin {"form", "skip"}) =>
                                (FlagsOK("round", w, ev.res, ev.fl) /\ FlagImpOK(ev.res, ev.fl))>>,
              <<"cp-fits",   (ev.ok /\ cls = "inside") => (Fits(ev.ctx, ev.res) /\ ev.res.cs >= 0)>>,
              <<"parse-wf",  ev.ok => WFParsed(ev.res)>> >>)
       [] ev.tk = "text" ->
         Names(<<
              <<"text", ev.out = TextOf(ev.d, ev.verb)>>,
              <<"rt",   /\ ev.ok
                        /\ IF ev.verb = 102 THEN ev.res.f = ev.d.f /\ ev.res.n = ev.d.n /\ (ev.d.f = FIN => NumEq(ev.res.c, ev.res.e, ev.d.c, ev.d.e))
                           ELSE AbsEq(ev.res, ev.d)>> >>)
       [] ev.tk = "format" ->
         LET v == IF ev.verb \in {118, 115} THEN 71 ELSE IF ev.verb = 70 THEN 102 ELSE ev.verb
             fl == {ev.flags[i] : i \in 1..Len(ev.flags)}
         IN Names(<< <<"format", ev.out = FmtPad(ev.d, fl, ev.width, TextOf(ev.d, v))>> >>)
       [] OTHER -> {"unknown-text-event"}

\* ---------------- family "cv": conversions (C17, C13) ----------------
SameFlt(a, b) == a.cls = b.cls /\ (a.cls = "nan" \/ (a.n = b.n /\ (a.cls = "fin" => (a.m = b.m /\ a.k = b.k))))
Verdict_cv(ev) ==
  IF ev.panic # "" THEN {"panic"}
  ELSE CASE ev.ck = "int64" ->
         LET w == Int64Spec(ev.d) IN
         Names(<< <<"int64", ev.ok = w.ok /\ (w.ok => (ev.v.c = w.c /\ (IsZero(w.c) \/ ev.v.n = w.n)))>>,
                  <<"frame", SameRepr(ev.da, ev.d)>> >>)
       [] ev.ck = "setint" ->
         Names(<< <<"setint", ev.res.f = FIN /\ ev.res.n = (ev.v.n /\ ~IsZero(ev.v.c)) /\ ev.res.c = ev.v.c
                              /\ ev.res.e = ev.e /\ ev.res.cs >= 0 /\ ev.err = "">> >>)
       [] ev.ck = "newbig" ->
         Names(<< <<"newbig", ev.res.f = FIN /\ ev.res.n = (ev.v.n /\ ~IsZero(ev.v.c)) /\ ev.res.c = ev.v.c /\ ev.res.e = ev.e /\ ev.res.cs >= 0>>,
                  <<"arg-unchanged", ev.back.m = ev.v.c /\ ev.back.n = (ev.v.n /\ ~IsZero(ev.v.c))>> >>)
       [] ev.ck = "float64" ->
         Names(<< <<"float64", ev.d.f \in {FIN, INF} => NearestFloat(ev.d, ev.f)>>,
                  <<"float64-nan", TRUE>> >>)
       [] ev.ck = "setfloat" ->
         Names(<< <<"setfloat-ok", ev.ok>>,
                  <<"float-rt", ev.ok => SameFlt(ev.back, ev.f)>>,
                  <<"setfloat-val", ev.ok =>
                       CASE ev.f.cls = "nan" -> ev.res.f = QNAN
                         [] ev.f.cls = "inf" -> ev.res.f = INF /\ ev.res.n = ev.f.n
                         [] ev.f.cls = "zero" -> ev.res.f = FIN /\ IsZero(ev.res.c) /\ ev.res.n = ev.f.n
                         [] OTHER -> ev.res.f = FIN /\ ev.res.n = ev.f.n /\ ev.res.cs >= 0
                                     /\ NearestFin(ev.res.c, ev.res.e, ev.f.m, ev.f.k)>>,
                  <<"setfloat-pre", (ev.ok /\ ev.res2.f >= 0) => (ev.res2.f = ev.res.f /\ (ev.res.f # QNAN => ev.res2.n = ev.res.n)
                                       /\ (ev.res.f = QNAN => ev.res2.n = ev.res.n) /\ ev.res2.c = ev.res.c /\ ev.res2.e = ev.res.e)>>,
                  <<"shortest", (ev.ok /\ ev.f.cls = "fin" /\ ev.res.f = FIN /\ ~IsZero(ev.res.c)) => Shortest(ev.res, ev.f)>> >>)
       [] ev.ck = "modf" ->
         Names(<< <<"modf", ev.d.f = FIN => ModfOK(ev.d, ev.hasi, ev.res, ev.hasf, ev.res2)>>,
                  <<"frame", SameRepr(ev.da, ev.d)>> >>)
       [] ev.ck = "codec" ->
         Names(<< <<"codec", ev.ok /\ ev.res.n = ev.d.n /\ ev.res.cs >= 0
                             /\ (IF ev.d.f = SNAN THEN ev.res.f = QNAN ELSE ev.res.f = ev.d.f)
                             /\ (ev.d.f = FIN => (ev.res.c = ev.d.c /\ ev.res.e = ev.d.e))>>,
                  <<"codec-pre", ev.res2.f = ev.res.f /\ ev.res2.n = ev.res.n
                                 /\ (ev.res.f = FIN => (ev.res2.c = ev.res.c /\ ev.res2.e = ev.res.e /\ ev.res2.cs >= 0))>>,
                  <<"frame", SameRepr(ev.da, ev.d)>> >>)
       [] OTHER -> {"unknown-cv-event"}

\* ---------------- family "bh": BigInt method histories with a math/big mirror (C16) ----------------
ValOf(r) == SInt(r.n, r.c)
StepVerdict(st, pre) ==        \* pre: sequence of signed integers, the register values before the step
  LET x == pre[st.x + 1]  y == pre[st.y + 1]  z == st.z + 1  r2 == st.r + 1
      post == [i \in 1..Len(st.post) |-> ValOf(st.post[i])]
      both == st.panic # "" /\ st.mpanic # ""
      written == IF st.m \in {"QuoRem", "DivMod"} THEN {z, r2} ELSE IF st.m \in Modifying THEN {z} ELSE {}
      defined == HasSem(st.m) /\ ~(st.m \in DivLike /\ IsZ(y)) /\ ~(st.m = "Exp" /\ IsZ(x) /\ st.aux = 0)
  IN IF both THEN {}
     ELSE IF st.panic # "" \/ st.mpanic # "" THEN {"panic"}
     ELSE Names(<<
       <<"mirror", /\ \A i \in 1..Len(post) : post[i] = SInt(st.mpost[i].n, st.mpost[i].c)
                   /\ st.ret.t = st.mret.t /\ st.ret.i = st.mret.i /\ st.ret.b = st.mret.b
                   /\ st.ret.s = st.mret.s /\ SInt(st.ret.v.n, st.ret.v.c) = SInt(st.mret.v.n, st.mret.v.c)>>,
       <<"frame",  \A i \in 1..Len(post) : i \notin written => post[i] = pre[i]>>,
       <<"sem",    defined => /\ post[z] = Sem(st.m, x, y, st.aux, st.auxv)
                              /\ (st.m \in {"QuoRem", "DivMod"} => post[r2] = Sem2(st.m, x, y))>>,
       <<"sem-read", /\ (st.m = "Cmp" => st.ret.i = SCmp(pre[z], x))
                     /\ (st.m = "CmpAbs" => st.ret.i = Cmp(pre[z].c, x.c))
                     /\ (st.m = "Sign" => st.ret.i = SSign(pre[z]))
                     /\ (st.m = "IsInt64" => st.ret.b = FitsInt64(pre[z]))
                     /\ (st.m = "IsUint64" => st.ret.b = FitsUint64(pre[z]))
                     /\ (st.m = "Int64" /\ FitsInt64(pre[z]) => SInt(st.ret.v.n, st.ret.v.c) = pre[z])
                     /\ (st.m = "Uint64" /\ FitsUint64(pre[z]) => SInt(st.ret.v.n, st.ret.v.c) = pre[z])
                     /\ (st.m = "String" => st.ret.s = (IF pre[z].n THEN <<45>> ELSE <<>>) \o DigitsOf(pre[z].c))
                     /\ (st.m = "Sqrt" /\ ~x.n => IsSqrtOf(post[z], x))>>,
       <<"zero",   \A i \in 1..Len(st.post) :
                     LET p == st.post[i] IN
                     /\ p.sg = (IF IsZero(p.c) THEN 0 ELSE IF p.n THEN -1 ELSE 1)
                     /\ p.c0 = p.sg
                     /\ (IsZero(p.c) => (~p.n /\ ~p.ns))>>,
       <<"repr",   \A i \in 1..Len(st.post) :
                     LET p == st.post[i] IN (~p.hp => p.fits) /\ ((~p.hp /\ IsZero(p.c)) => p.wz) /\ (p.ns => (~p.hp /\ p.n))>> >>)
RECURSIVE HistVerdict(_, _, _, _)
HistVerdict(steps, i, pre, acc) ==
  IF i > Len(steps) THEN acc
  ELSE LET st == steps[i]
           v0 == StepVerdict(st, pre)
           v == IF v0 = {} \/ PrintT(<<"STEP", i, st.m, st.z, st.x, st.y, st.r, st.aux, v0>>) THEN v0 ELSE v0
           nxt == IF st.panic # "" \/ st.mpanic # "" THEN pre ELSE [j \in 1..Len(st.post) |-> ValOf(st.post[j])]
       IN HistVerdict(steps, i + 1, nxt, acc \cup v)
Verdict_bh(ev) == HistVerdict(ev.steps, 1, [i \in 1..Len(ev.init) |-> SInt(ev.init[i].n, ev.init[i].c)], {})

\* ---------------- family "mh": register-machine / ErrDecimal histories (C06, C03) ----------------
\* The machine's variables (reg, ed) are carried along the recorded history; each recorded step must be
\* the step the machine takes given the reference outcome of the same operation on clones of the operands.
SetUnion(a, b) == a \cup b
MStepVerdict(mode, ctx, st, reg, ed) ==
  LET out == [val |-> st.ref.res, fl |-> BitSet(st.ref.fl), err |-> st.ref.err # ""]
      post == [i \in 1..Len(st.post) |-> st.post[i]]
      d == st.d + 1
      composite == st.op \in Composite
      SameD(a, b) == SameRepr(a, b) /\ a.cs = b.cs
  IN IF st.panic # "" \/ st.ref.panic # "" THEN [names |-> {"panic"}, reg |-> reg, ed |-> ed]
     ELSE IF mode = "ctx" THEN
       LET nx == CtxStep(reg, d, out) IN
       [names |-> Names(<<
           <<"hist-indep", /\ (st.err = "" => SameD(post[d], nx[d]))      \* ctx histories run without traps: an error is a system limit
                           /\ st.fl = st.ref.fl /\ st.err = st.ref.err /\ st.cnt = st.ref.cnt>>,
           <<"frame",      \A i \in 1..Len(post) : i # d => SameD(post[i], reg[i])>>,
           <<"ctxframe",   st.ctxa = ctx>>,
           <<"shared-state", st.sh>> >>),
        reg |-> post, ed |-> ed]
     ELSE
       LET nx == EdStep(reg, ed, d, out, SetUnion) IN
       [names |-> Names(<<
           <<"ed-skip",   ed.err => (\A i \in 1..Len(post) : SameD(post[i], reg[i]))>>,
           \* the destination is compared unless the step ended in an error that is not a trapped condition of a
           \* single-rounding operation (system limit, zero precision, composite function: destination unspecified)
           <<"ed-same-op", (~ed.err /\ (~out.err \/ (~composite /\ And(st.ref.fl, ctx.t) # 0))) => SameD(post[d], nx.reg[d])>>,
           <<"ed-flags",  BitSet(st.edfl) = nx.ed.flags>>,
           <<"ed-err",    st.ederr = nx.ed.err>>,
           <<"ed-count",  (~ed.err /\ st.op = "reduce") => st.cnt = st.ref.cnt>>,
           <<"frame",     \A i \in 1..Len(post) : i # d => SameD(post[i], reg[i])>>,
           <<"ctxframe",  st.ctxa = ctx>>,
           <<"shared-state", st.sh>> >>),
        reg |-> post, ed |-> nx.ed]
RECURSIVE MHist(_, _, _, _, _, _, _)
MHist(mode, ctx, steps, i, reg, ed, acc) ==
  IF i > Len(steps) THEN acc
  ELSE LET r == MStepVerdict(mode, ctx, steps[i], reg, ed)
           dbg == r.names = {} \/ PrintT(<<"STEP", i, steps[i].op, steps[i].d, steps[i].x, steps[i].y, r.names>>)
       IN IF dbg THEN MHist(mode, ctx, steps, i + 1, r.reg, r.ed, acc \cup r.names)
          ELSE MHist(mode, ctx, steps, i + 1, r.reg, r.ed, acc \cup r.names)
Verdict_mh(ev) == MHist(ev.mode, ev.ctx, ev.steps, 1, [i \in 1..Len(ev.init) |-> [ev.init[i] EXCEPT !.cs = ev.init[i].cs]],
                        [err |-> FALSE, flags |-> {}], {})

\* ---------------- family "call": totality of every entry point (C04) ----------------
\* No spec action consumes a panic or a timeout.  In domain X (ev.slow) single operations legitimately take
\* many seconds: a timeout there is inconclusive and accepted (DESIGN C04).
Verdict_call(ev) ==
  Names(<< <<"panic", ev.panic = "" \/ (ev.slow /\ ev.panic = "timeout") \/ ev.panic = "skipped-after-timeouts">>,
           <<"wf",    ev.has => (ev.res.f \in {FIN, INF, SNAN, QNAN} /\ ev.res.cs >= 0 /\ IsNat(ev.res.c))>> >>)

\* ---------------- family "conc": goroutines sharing a Context and operands (C18) ----------------
\* Every concurrent outcome must equal the outcome of the same call run alone (which is itself judged as
\* an ordinary "a" event); shared operands, Contexts and the package state must be unchanged afterwards;
\* a race-detector report is an event no action admits.
\* the destination is compared when the call delivered one: no error, or a trapped condition of a non-composite
\* operation (a composite function that fails, or any call refused with a system error, leaves it unspecified - C03 -
\* and every caller keeps re-using one private destination)
SameAOut(a, b, ev) ==
  /\ a.panic = b.panic /\ a.fl = b.fl /\ a.err = b.err /\ a.cnt = b.cnt
  /\ ((a.err = "" \/ (ev.op \notin Composite /\ And(a.fl, ev.ctx.t) # 0)) => (SameRepr(a.res, b.res) /\ a.res.cs = b.res.cs))
Verdict_conc(ev) ==
  Names(<< <<"same-as-alone", \A i \in 1..Len(ev.conc) : SameAOut(ev.conc[i], ev.seq, ev)>>,
           <<"readonly-same", \A i \in 1..Len(ev.roc) : ev.roc[i] = ev.ro>>,
           <<"ctx-unchanged", \A i \in 1..Len(ev.conc) : ev.conc[i].ctxa = ev.ctx>> >>)
Verdict_concsnap(ev) ==
  Names(<< <<"shared-operands-unchanged", \A i \in 1..Len(ev.before) : SameRepr(ev.before[i], ev.after[i]) /\ ev.before[i].cs = ev.after[i].cs>>,
           <<"shared-contexts-unchanged", ev.ctxa = ev.ctxb>>,
           <<"shared-state", ev.shb = ev.sha>> >>)

\* ---------------- family "cond": Condition.GoError / String (the trap mechanism of C03) ----------------
CondName(b) == CASE b = F_OVF -> "overflow" [] b = F_UNF -> "underflow" [] b = F_INEXACT -> "inexact" [] b = F_SUBN -> "subnormal"
                 [] b = F_ROUNDED -> "rounded" [] b = F_DIVUNDEF -> "division undefined" [] b = F_DIVZERO -> "division by zero"
                 [] b = F_DIVIMP -> "division impossible" [] b = F_INVALID -> "invalid operation" [] b = F_CLAMPED -> "clamped" [] OTHER -> ""
NamedBits == <<F_OVF, F_UNF, F_INEXACT, F_SUBN, F_ROUNDED, F_DIVUNDEF, F_DIVZERO, F_DIVIMP, F_INVALID, F_CLAMPED>>
RECURSIVE CondStr(_, _, _)
CondStr(fl, i, acc) == IF i > Len(NamedBits) THEN acc
                       ELSE IF Bit(fl, NamedBits[i]) THEN CondStr(fl, i + 1, IF acc = "" THEN CondName(NamedBits[i]) ELSE acc \o ", " \o CondName(NamedBits[i]))
                       ELSE CondStr(fl, i + 1, acc)
Verdict_cond(ev) ==
  LET sys == Bit(ev.r, F_SYSOVF) \/ Bit(ev.r, F_SYSUNF)
      trapped == And(ev.r, ev.t)
  IN Names(<< <<"goerror", /\ ev.ret = ev.r
                          /\ ev.err = (IF sys THEN "exponent out of range" ELSE IF trapped # 0 THEN CondStr(trapped, 1, "") ELSE "")>>,
              <<"string",  ev.s = CondStr(ev.r, 1, "") /\ ev.any = (ev.r # 0)>> >>)

Verdict(ev) ==
  CASE ev.k = "a" -> Verdict_a(ev)
    [] ev.k = "cond" -> Verdict_cond(ev)
    [] ev.k = "conc" -> Verdict_conc(ev)
    [] ev.k = "concsnap" -> Verdict_concsnap(ev)
    [] ev.k = "race" -> {"data-race"}
    [] ev.k = "call" -> Verdict_call(ev)
    [] ev.k = "api" -> {}
    [] ev.k = "mh" -> Verdict_mh(ev)
    [] ev.k = "sh" -> Names(<< <<"shared-state", ev.before = ev.after>> >>)
    [] ev.k = "bh" -> Verdict_bh(ev)
    [] ev.k = "cv" -> Verdict_cv(ev)
    [] ev.k = "t" -> Verdict_t(ev)
    [] ev.k = "nd" -> Verdict_nd(ev)
    [] ev.k = "o" -> Verdict_o(ev)
    [] ev.k = "om" -> Verdict_om(ev)
    [] OTHER -> {"unknown-family"}

\* layer-2 drift (reported in the evidence, never a violation): the recorded Round call differs from the
\* implementation-shaped model AlgRound in representation or in ANY condition bit (Rounded / Clamped included)
DriftRound(ev) ==
  ev.k = "a" /\ ev.op = "round" /\ ev.panic = "" /\ ~SysFlag(ev) /\ ev.x.f \in {FIN, INF} /\ WFContext(ev.ctx) /\
  LET a == AlgRound(ev.ctx, ev.x) IN
  ~(a.f = ev.res.f /\ (a.f = FIN => (a.c = ev.res.c /\ a.e = ev.res.e)) /\ BitSet(ev.fl) = a.fl)

\* the same for the exact arithmetic entry points against AlgArith (operands at most 400 orders of magnitude apart)
DriftArith(ev) ==
  ev.k = "a" /\ ev.op \in {"add", "sub", "mul", "abs", "neg", "reduce", "cmp", "quoint", "rem"} /\ ev.panic = "" /\ ~SysFlag(ev) /\ WFContext(ev.ctx)
  /\ (ev.op \in {"quoint", "rem"} => ev.ctx.p > 0)
  /\ ev.x.f \in {FIN, INF} /\ ev.y.f \in {FIN, INF} /\ ev.x.e - ev.y.e \in -400..400 /\
  LET same(a) == a.f = ev.res.f /\ (a.f # QNAN => a.n = ev.res.n) /\ (a.f = FIN => (a.c = ev.res.c /\ a.e = ev.res.e)) /\ BitSet(ev.fl) = a.fl
  IN CASE ev.op \in {"add", "sub"} -> ~same(AlgAdd(ev.ctx, ev.x, ev.y, ev.op = "sub"))
       [] ev.op = "mul" -> ~same(AlgMul(ev.ctx, ev.x, ev.y))
       [] ev.op = "quoint" -> ~same(AlgQuoInt(ev.ctx, ev.x, ev.y))
       [] ev.op = "rem" -> ~same(AlgRem(ev.ctx, ev.x, ev.y))
       [] ev.op \in {"abs", "neg"} -> ~same(AlgUnary(ev.ctx, ev.x, ev.op))
       [] ev.op = "reduce" -> LET r == AlgReduce(ev.ctx, ev.x) IN ~(same(r.o) /\ r.cnt = ev.cnt)
       [] OTHER -> LET v == AlgCmp(ev.x, ev.y) IN
                   ~(ev.res.f = FIN /\ ev.res.e = 0 /\ ev.fl = 0 /\ ev.res.c = (IF v = 0 THEN <<>> ELSE One) /\ (v # 0 => ev.res.n = (v < 0)))

\* Context.Quo (finite operands, non-zero divisor) against AlgQuo and Context.Quantize against AlgQuantize
DriftQuoQuantize(ev) ==
  ev.k = "a" /\ ev.op \in {"quo", "quantize"} /\ ev.panic = "" /\ ~SysFlag(ev) /\ WFContext(ev.ctx) /\ ev.ctx.p > 0
  /\ ev.x.f = FIN /\ (ev.op = "quo" => (ev.y.f = FIN /\ ~IsZero(ev.y.c) /\ ev.x.e - ev.y.e \in -400..400))
  /\ (ev.op = "quantize" => ev.q - ev.x.e \in -400..400) /\
  LET a == IF ev.op = "quo" THEN AlgQuo(ev.ctx, ev.x, ev.y) ELSE AlgQuantize(ev.ctx, ev.x, ev.q)
      n == IF ev.op = "quo" THEN (ev.x.n # ev.y.n) ELSE ev.x.n
  IN ~(a.f = ev.res.f /\ (a.f = FIN => (a.c = ev.res.c /\ a.e = ev.res.e /\ ev.res.n = n)) /\ BitSet(ev.fl) = a.fl)

\* a replayed TLC-generated history (Gen_Hist) against the state the specification predicted step by step
SameV(a, b) == a.f = b.f /\ (a.f \in {FIN, INF} => a.n = b.n) /\ (a.f = FIN => (a.c = b.c /\ a.e = b.e))
DriftHist(ev) ==
  ev.k = "mh" /\ "pred" \in DOMAIN ev /\
  \E i \in 1..Len(ev.steps) :
     LET st == ev.steps[i]  pr == ev.pred[i] IN
     st.panic = "" /\ st.ref.panic = "" /\
     ~(/\ \A j \in 1..Len(st.post) : SameV(st.post[j], pr.regs[j])
       /\ (ev.mode = "ed" => (st.edfl = pr.fl /\ st.ederr = pr.err))
       /\ (ev.mode = "ctx" => st.fl = pr.fl)
       /\ st.cnt = pr.cnt)

\* table.go NumDigits against its transcription AlgNumDigits (values up to 240 digits)
DriftNumDigits(ev) ==
  ev.k = "nd" /\ ev.panic = "" /\ ev.p10 < 0 /\ Len(ev.b) <= 80 /\ NumDigitsAlg(ev.b) # ev.nd

Init == l = 0
Next == l < Len(T) /\ l' = l + 1
Inv == l = 0 \/ (/\ ((DriftRound(T[l]) \/ DriftArith(T[l]) \/ DriftQuoQuantize(T[l]) \/ DriftNumDigits(T[l]) \/ DriftHist(T[l])) => PrintT(<<"DRIFT", l, T[l].k, IF T[l].k = "a" THEN T[l].op ELSE "">>))
                  /\ LET v == Verdict(T[l]) IN (v = {} \/ PrintT(<<"VIOL", l, v>>)))
Done == PrintT(<<"VALIDATED", Len(T)>>)
=============================================================================
