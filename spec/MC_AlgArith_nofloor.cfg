INIT Init
NEXT Next
CONSTANTS NMax = 3
  FloorFix = FALSE
  FlipFix = TRUE
  RemSign = TRUE
  Lvl = 0
INVARIANTS AddRefines MulRefines CmpRefines DivRefines UnaryRefines
CHECK_DEADLOCK FALSE
