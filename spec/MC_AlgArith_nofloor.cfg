INIT Init
NEXT Next
CONSTANTS NMax = 3
  FloorFix = FALSE
  FlipFix = TRUE
  Lvl = 0
INVARIANTS AddRefines MulRefines CmpRefines UnaryRefines
CHECK_DEADLOCK FALSE
