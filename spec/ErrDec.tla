------------------------------- MODULE ErrDec -------------------------------
(***************************************************************************)
(* C03 (ErrDecimal) and C06 (register machine) as state machines.          *)
(* The machine state is  reg : register file,  ed : [err, flags] for the   *)
(* ErrDecimal wrapper.  A step is described by the OUTCOME the underlying  *)
(* Context operation has on the current operand values:                    *)
(*      out == [val, fl, err]                                              *)
(* In MC_ErrDec the outcome comes from a small abstract operation table;   *)
(* in trace validation it is the outcome RECORDED from a direct Context    *)
(* call on clones of the same operand values (fresh destination, fresh     *)
(* Context), so the same definitions judge the model and the code.         *)
(* Anchors: error.go (every wrapper, update, Err); context.go methods.     *)
(***************************************************************************)
EXTENDS Integers

\* direct Context call: the destination gets the outcome's value, nothing else changes
CtxStep(reg, d, out) == [reg EXCEPT ![d] = out.val]

\* ErrDecimal wrapper: skipped entirely once an error is recorded
EdStep(reg, ed, d, out, union(_, _)) ==
  IF ed.err THEN [reg |-> reg, ed |-> ed]
  ELSE [reg |-> [reg EXCEPT ![d] = out.val],
        ed  |-> [err |-> out.err, flags |-> union(ed.flags, out.fl)]]
=============================================================================
