-------------------------------- MODULE Roots --------------------------------
(***************************************************************************)
(* C11: acceptance of square and cube roots by integer inequalities only;  *)
(* no root is ever computed.  x = X*10^ex (finite, non-zero),              *)
(* r = R*10^er the observed result, p the precision.                       *)
(* Anchors: context.go Sqrt, Cbrt, rootSpecials; loop.go.                  *)
(***************************************************************************)
EXTENDS DecBase
\* compare a*10^ea with b*10^eb
CmpS(a, ea, b, eb) == CmpMag(a, ea, b, eb)
Sq(a) == Mul(a, a)
Cube(a) == Mul(a, Mul(a, a))
\* scale the result to exactly p digits: <<R', er'>>
ToP(R, er, p) == LET nd == NumDigits(R) IN IF nd >= p THEN <<R, er>> ELSE <<MulPow10(R, p - nd), er - (p - nd)>>

\* r is sqrt(x) correctly rounded half-even to p digits; inx = Inexact flag observed
SqrtOK(X, ex, R, er, p, inx) ==
  LET exact == CmpS(Sq(R), 2 * er, X, ex) = 0 IN
  IF exact THEN ~inx /\ NumDigits(R) <= p
  ELSE LET s == ToP(R, er, p)
           Rp == s[1]  ep == s[2]
           lo == Sub(Add(Rp, Rp), One)                 \* 2R-1
           hi == Add(Add(Rp, Rp), One)                 \* 2R+1
           X4 == MulSmall(X, 4)
           cl == CmpS(Sq(lo), 2 * ep, X4, ex)          \* (2R-1)^2 u^2 ? 4x
           ch == CmpS(X4, ex, Sq(hi), 2 * ep)          \* 4x ? (2R+1)^2 u^2
       IN /\ inx
          /\ NumDigits(Rp) = p
          /\ (cl < 0 \/ (cl = 0 /\ ~IsOdd(Rp)))
          /\ (ch < 0 \/ (ch = 0 /\ ~IsOdd(Rp)))

\* r is within one unit in the last place (of a p-digit result) of cbrt(|x|); exact on perfect cubes
CbrtOK(X, ex, R, er, p, inx) ==
  LET exact == CmpS(Cube(R), 3 * er, X, ex) = 0
      s == ToP(R, er, p)
      Rp == s[1]  ep == s[2]
      dn == Sub(Rp, One)  up == Add(Rp, One)
  IN IF exact THEN ~inx /\ NumDigits(R) <= p
     ELSE /\ NumDigits(Rp) = p
          /\ CmpS(Cube(dn), 3 * ep, X, ex) < 0           \* (R-1)^3 < x : a neighbour is not the exact root
          /\ CmpS(X, ex, Cube(up), 3 * ep) < 0
=============================================================================
