-------------------------------- MODULE Roots --------------------------------
(***************************************************************************)
(* C11: acceptance of square and cube roots by integer inequalities only;  *)
(* no root is ever computed.  x = X*10^ex (finite, non-zero),              *)
(* r = R*10^er the observed result, p the precision.                       *)
(* Anchors: context.go Sqrt, Cbrt, rootSpecials; loop.go.                  *)
(***************************************************************************)
EXTENDS DecBase
\* compare a*10^ea with b*10^eb
CmpS(a, ea, b, eb) == CmpMag(a, ea, b, eb)
Sq(a) == Mul(a, a)
Cube(a) == Mul(a, Mul(a, a))
\* scale the result to exactly p digits: <<R', er'>>
ToP(R, er, p) == LET nd == NumDigits(R) IN IF nd >= p THEN <<R, er>> ELSE <<MulPow10(R, p - nd), er - (p - nd)>>

\* r is sqrt(x) correctly rounded half-even to p digits; inx = Inexact flag observed
SqrtOK(X, ex, R, er, p, inx) ==
  LET exact == CmpS(Sq(R), 2 * er, X, ex) = 0 IN
  IF exact THEN ~inx /\ NumDigits(R) <= p
  ELSE LET s == ToP(R, er, p)
           Rp == s[1]  ep == s[2]
           \* everything scaled by 20: r = 20R, half a unit above = 10; half a unit below = 10, or 1 when R is a power
           \* of ten (below 10^(p-1) the representable values are ten times denser)
           pow10 == Rp = Pow10(p - 1)
           R20 == MulSmall(Rp, 20)
           lo == Sub(R20, IF pow10 THEN One ELSE <<10>>)
           hi == Add(R20, <<10>>)
           X400 == MulSmall(X, 400)
           cl == CmpS(Sq(lo), 2 * ep, X400, ex)         \* (r - half below)^2 ? x
           ch == CmpS(X400, ex, Sq(hi), 2 * ep)         \* x ? (r + half above)^2
       IN /\ inx
          /\ NumDigits(Rp) = p
          \* a tie goes to the even neighbour; at a power of ten the neighbour below is 99..9 (odd), so the tie goes up
          /\ (cl < 0 \/ (cl = 0 /\ (pow10 \/ ~IsOdd(Rp))))
          /\ (ch < 0 \/ (ch = 0 /\ ~IsOdd(Rp)))

\* sub-normal results: sqrt(x) rounded half-even to an integer multiple of 10^etiny (R*10^er with er >= etiny)
SqrtSubOK(X, ex, R, er, etiny, inx) ==
  LET Rq == MulPow10(R, er - etiny)                    \* coefficient at the quantum 10^etiny
      exact == CmpS(Sq(Rq), 2 * etiny, X, ex) = 0
      lo == IF IsZero(Rq) THEN <<>> ELSE Sub(Add(Rq, Rq), One)
      hi == Add(Add(Rq, Rq), One)
      X4 == MulSmall(X, 4)
      cl == IF IsZero(Rq) THEN -1 ELSE CmpS(Sq(lo), 2 * etiny, X4, ex)
      ch == CmpS(X4, ex, Sq(hi), 2 * etiny)
  IN /\ er >= etiny
     /\ inx = ~exact
     /\ (exact \/ (/\ (cl < 0 \/ (cl = 0 /\ ~IsOdd(Rq))) /\ (ch < 0 \/ (ch = 0 /\ ~IsOdd(Rq)))))

\* r is within one unit in the last place (of a p-digit result) of cbrt(|x|); exact on perfect cubes
CbrtOK(X, ex, R, er, p, inx) ==
  LET exact == CmpS(Cube(R), 3 * er, X, ex) = 0
      s == ToP(R, er, p)
      Rp == s[1]  ep == s[2]
      pow10 == Rp = Pow10(p - 1)                      \* below a power of ten one unit is ten times smaller
      dn == IF pow10 THEN Sub(MulSmall(Rp, 10), One) ELSE Sub(Rp, One)
      edn == IF pow10 THEN ep - 1 ELSE ep
      up == Add(Rp, One)
  IN IF exact THEN ~inx /\ NumDigits(R) <= p
     ELSE /\ NumDigits(Rp) = p
          /\ CmpS(Cube(dn), 3 * edn, X, ex) < 0          \* (R-1)^3 < x : a neighbour is not the exact root
          /\ CmpS(X, ex, Cube(up), 3 * ep) < 0
=============================================================================
