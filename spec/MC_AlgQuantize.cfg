INIT Init
NEXT Next
CONSTANTS NMax = 5
  ModeFix = TRUE
  RangeFix = TRUE
INVARIANT Refines
CHECK_DEADLOCK FALSE
