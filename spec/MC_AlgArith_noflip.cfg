INIT Init
NEXT Next
CONSTANTS NMax = 3
  FloorFix = TRUE
  FlipFix = FALSE
  Lvl = 0
INVARIANTS AddRefines MulRefines CmpRefines UnaryRefines
CHECK_DEADLOCK FALSE
