INIT Init
NEXT Next
CONSTANTS NMax = 3
  FloorFix = TRUE
  FlipFix = FALSE
  RemSign = TRUE
  Lvl = 0
INVARIANTS AddRefines MulRefines CmpRefines DivRefines UnaryRefines
CHECK_DEADLOCK FALSE
