INIT Init
NEXT Next
CONSTANTS NMax = 9
  FloorFix = TRUE
  FlipFix = TRUE
  RemSign = TRUE
  Lvl = 1
INVARIANTS AddRefines MulRefines CmpRefines DivRefines UnaryRefines
CHECK_DEADLOCK FALSE
