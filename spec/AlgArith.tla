------------------------------ MODULE AlgArith ------------------------------
(***************************************************************************)
(* Layer 2: implementation-shaped transcriptions of the exact arithmetic   *)
(* entry points as they are in the current tree:                           *)
(*   decimal.go  Decimal.Sign, Decimal.Cmp (sign / form / equal-exponent / *)
(*               adjusted-exponent shortcuts, then the aligned compare),   *)
(*               upscale, Decimal.Neg, Decimal.Abs, Decimal.Reduce         *)
(*   context.go  Context.add (Add / Sub), Context.Mul (setExponent on the  *)
(*               unrounded product, then round), Context.Abs / Neg,        *)
(*               Context.Reduce (round first, then strip zeros),           *)
(*               quoSpecials + Context.QuoInteger, Context.Rem             *)
(* MC_AlgArith checks each against layer 1 (Spec_AddSub, Spec_Mul,         *)
(* CmpSpec, Spec_Unary) on a boundary domain; the pinned configurations    *)
(* remove one branch each (the -0 rule of an exact zero difference under   *)
(* floor; the sign flip of the equal-exponent compare) and must be         *)
(* rejected.  Trace!DriftArith binds the transcription to the code: every  *)
(* recorded add / sub / mul / abs / neg / reduce / cmp call must agree     *)
(* with it in representation and in every condition bit.                   *)
(***************************************************************************)
EXTENDS AlgRound

\* Decimal.Sign
SignD(x) == IF x.f = FIN /\ IsZero(x.c) THEN 0 ELSE IF x.n THEN -1 ELSE 1

\* Decimal.Cmp for non-NaN operands.  flipfix = FALSE: the equal-exponent branch forgets the sign flip
AlgCmpP(d, x, flipfix) ==
  LET ds == SignD(d)
      xs == SignD(x)
  IN IF ds < xs THEN -1
     ELSE IF ds > xs THEN 1
     ELSE IF ds = 0 THEN 0
     ELSE LET gt == IF ds = -1 THEN -1 ELSE 1
              lt == -gt
          IN IF d.f = INF THEN (IF x.f = INF THEN 0 ELSE gt)
             ELSE IF x.f = INF THEN lt
             ELSE IF d.e = x.e THEN (LET c == Cmp(d.c, x.c) IN IF ds < 0 /\ flipfix THEN -c ELSE c)
             ELSE LET dn == NumDigits(d.c) + d.e
                      xn == NumDigits(x.c) + x.e
                  IN IF dn < xn THEN lt
                     ELSE IF dn > xn THEN gt
                     ELSE LET c == IF d.e < x.e THEN Cmp(d.c, MulPow10(x.c, x.e - d.e))
                                   ELSE Cmp(MulPow10(d.c, d.e - x.e), x.c)
                          IN IF ds < 0 THEN -c ELSE c
AlgCmp(d, x) == AlgCmpP(d, x, TRUE)

\* upscale(a, b): <<a', b', s>> with a.c*10^a.e = a'*10^s and likewise for b  (s > MaxExponent gaps: outside the domain)
Upscale(a, b) ==
  IF a.e = b.e THEN <<a.c, b.c, a.e>>
  ELSE IF a.e < b.e THEN <<a.c, MulPow10(b.c, b.e - a.e), a.e>>
  ELSE <<MulPow10(a.c, a.e - b.e), b.c, b.e>>

Out(f, n, c, e, fl) == [f |-> f, n |-> n, c |-> c, e |-> e, fl |-> fl]
RoundTo(ctx, n, c, e) == LET r == AlgRound(ctx, [f |-> FIN, n |-> n, c |-> c, e |-> e]) IN Out(r.f, n, r.c, r.e, r.fl)

\* Context.add for non-NaN operands.  floorfix = FALSE: the "-0 under RoundFloor" rule is missing
AlgAddP(ctx, x, y, sub, floorfix) ==
  LET xn == x.n
      yn == (y.n # sub)
  IN IF x.f = INF \/ y.f = INF THEN
        (IF x.f = INF /\ y.f = INF /\ xn # yn THEN Out(QNAN, FALSE, <<>>, 0, {F_INVALID})
         ELSE IF x.f = INF THEN Out(INF, x.n, x.c, x.e, {})
         ELSE Out(INF, yn, <<>>, 0, {}))
     ELSE LET u == Upscale(x, y)
              a == u[1]
              b == u[2]
          IN IF xn = yn THEN RoundTo(ctx, xn, Add(a, b), u[3])
             ELSE LET cmp == Cmp(a, b) IN
                  IF cmp > 0 THEN RoundTo(ctx, xn, Sub(a, b), u[3])
                  ELSE IF cmp < 0 THEN RoundTo(ctx, ~xn, Sub(b, a), u[3])
                  ELSE RoundTo(ctx, IF floorfix THEN ctx.r = "floor" ELSE xn, <<>>, u[3])
AlgAdd(ctx, x, y, sub) == AlgAddP(ctx, x, y, sub, TRUE)

\* Context.Mul for non-NaN operands: setExponent on the exact product (this is where a sub-normal product is
\* rounded to Etiny and an overflowing one becomes infinite), then the ordinary rounding
AlgMul(ctx, x, y) ==
  LET neg == (x.n # y.n) IN
  IF x.f = INF \/ y.f = INF THEN
     (IF SignD(x) = 0 \/ SignD(y) = 0 THEN Out(QNAN, FALSE, <<>>, 0, {F_INVALID}) ELSE Out(INF, neg, <<>>, 0, {}))
  ELSE LET s == SetExponent(ctx, neg, Mul(x.c, y.c), x.e + y.e, {}) IN
       IF s.f # FIN THEN Out(s.f, neg, s.c, s.e, s.fl)
       ELSE LET r == RoundTo(ctx, neg, s.c, s.e) IN [r EXCEPT !.fl = s.fl \cup r.fl]

\* quoSpecials(canClamp = FALSE) then Context.QuoInteger: aligned integer division, the digit limit, exponent 0
\* (Precision 0 is refused with an error: outside the domain)
AlgQuoInt(ctx, x, y) ==
  LET neg == (x.n # y.n) IN
  IF x.f = INF \/ y.f = INF THEN
     (IF x.f = INF /\ y.f = INF THEN Out(QNAN, FALSE, <<>>, 0, {F_INVALID})
      ELSE IF x.f = INF THEN Out(INF, neg, <<>>, 0, {})
      ELSE Out(FIN, neg, <<>>, 0, {}))
  ELSE IF SignD(y) = 0 THEN
     (IF SignD(x) = 0 THEN Out(QNAN, FALSE, <<>>, 0, {F_DIVUNDEF}) ELSE Out(INF, neg, <<>>, 0, {F_DIVZERO}))
  ELSE LET u == Upscale(x, y)
           q == DivMod(u[1], u[2])[1]
       IN IF NumDigits(q) > ctx.p THEN Out(QNAN, FALSE, <<>>, 0, {F_DIVIMP}) ELSE Out(FIN, neg, q, 0, {})

\* Context.Rem.  remsign = FALSE: the remainder takes the quotient's sign instead of the dividend's
AlgRemP(ctx, x, y, remsign) ==
  IF x.f # FIN THEN Out(QNAN, FALSE, <<>>, 0, {F_INVALID})
  ELSE IF y.f = INF THEN RoundTo(ctx, x.n, x.c, x.e)
  ELSE IF SignD(y) = 0 THEN Out(QNAN, FALSE, <<>>, 0, IF SignD(x) = 0 THEN {F_DIVUNDEF} ELSE {F_INVALID})
  ELSE LET u == Upscale(x, y)
           qr == DivMod(u[1], u[2])
       IN IF NumDigits(qr[1]) > ctx.p THEN Out(QNAN, FALSE, <<>>, 0, {F_DIVIMP})
          ELSE RoundTo(ctx, IF remsign THEN x.n ELSE (x.n # y.n), qr[2], u[3])
AlgRem(ctx, x, y) == AlgRemP(ctx, x, y, TRUE)

\* Context.Abs / Context.Neg (Decimal.Neg turns -0 into 0) / Context.Round
AlgUnary(ctx, x, op) ==
  LET n == CASE op = "abs" -> FALSE
             [] op = "neg" -> IF SignD(x) = 0 THEN FALSE ELSE ~x.n
             [] OTHER -> x.n
  IN IF x.f = INF THEN Out(INF, n, x.c, x.e, {}) ELSE RoundTo(ctx, n, x.c, x.e)

\* Context.Reduce: round, then strip the trailing zeros of the rounded coefficient; a zero becomes 0E0; cnt = zeros removed
AlgReduce(ctx, x) ==
  IF x.f = INF THEN [o |-> Out(INF, x.n, x.c, x.e, {}), cnt |-> 0]
  ELSE LET r == RoundTo(ctx, x.n, x.c, x.e) IN
       IF r.f # FIN THEN [o |-> r, cnt |-> 0]
       ELSE IF IsZero(r.c) THEN [o |-> [r EXCEPT !.e = 0], cnt |-> 0]
       ELSE LET k == TrailingZeros(r.c) IN [o |-> [r EXCEPT !.c = DropDigits(r.c, k)[1], !.e = r.e + k], cnt |-> k]
=============================================================================
