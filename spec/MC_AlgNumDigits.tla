-------------------------- MODULE MC_AlgNumDigits --------------------------
EXTENDS AlgNumDigits
CONSTANTS Small, KMax, ShortcutOK, Geq
VARIABLES kind, k, d, bucket
vars == <<kind, k, d, bucket>>
\* kind 0: the integer k itself (k < Small);  1: 2^k + d;  2: 10^k + d   (d in -1..1)
Init == kind = -1 /\ k = 0 /\ d = 0 /\ bucket \in 0..15      \* 16 seed states so that the workers share the enumeration
Next == kind = -1 /\ UNCHANGED bucket
                  /\ \/ (kind' = 0 /\ k' \in {i \in 0..Small : i % 16 = bucket} /\ d' = 0)
                     \/ (kind' = 1 /\ k' \in {i \in 1..(3 * KMax + 20) : i % 16 = bucket} /\ d' \in -1..1)
                     \/ (kind' = 2 /\ k' \in {i \in 1..KMax : i % 16 = bucket} /\ d' \in -1..1)
Val == LET base == IF kind = 0 THEN FromInt(k) ELSE IF kind = 1 THEN Pow2(k) ELSE Pow10(k)
       IN IF d = 1 THEN Add(base, One) ELSE IF d = -1 THEN Sub(base, One) ELSE base
Agrees == kind >= 0 => NumDigitsAlgP(Val, ShortcutOK, Geq) = NumDigits(Val)
\* the digit count of a power of ten and its neighbours, stated without NumDigits
PowTen == kind = 2 => NumDigitsAlgP(Val, ShortcutOK, Geq) = (IF d = -1 THEN k ELSE k + 1)
\* the table invariant the shortcut relies on: a bit length has at most two digit counts, dg and dg + 1
TableLaw == (kind = 1 /\ d = 0 /\ k <= TableSize) => (TabDigits(k + 1) \in {TabDigits(k), TabDigits(k) + 1})
=============================================================================
