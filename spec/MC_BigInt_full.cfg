INIT Init
NEXT Next
CONSTANTS U = 6
  W = 5
  MaxV = 400
  Buggy = FALSE
CONSTRAINT Bound
INVARIANTS LikeMathBig ZeroNotNegative InlineFits
CHECK_DEADLOCK FALSE
