------------------------------- MODULE Round -------------------------------
(***************************************************************************)
(* The rounding kernel and the central definition RoundOnce: the exact     *)
(* value +-(N/D)*10^e rounded ONCE to a context.                           *)
(* Anchors: round.go (Rounder.ShouldAddOne, Rounder.Round, roundAddOne),   *)
(*          decimal.go (setExponent), context.go (Quo's own rounding).     *)
(***************************************************************************)
EXTENDS DecBase

\* Should the magnitude C (truncated) be incremented?  half: -1/0/1 = the discarded
\* part is below / exactly / above half a unit; inexact: the discarded part is non-zero.
Inc(mode, neg, C, half, inexact) ==
  CASE mode = "down"      -> FALSE
    [] mode = "up"        -> inexact
    [] mode = "ceiling"   -> inexact /\ ~neg
    [] mode = "floor"     -> inexact /\ neg
    [] mode = "half_down" -> half > 0
    [] mode = "half_even" -> half > 0 \/ (half = 0 /\ IsOdd(C))
    [] mode = "05up"      -> inexact /\ LastDigit(C) \in {0, 5}
    [] OTHER              -> half >= 0 /\ inexact          \* half_up and the empty default

\* floor(log10(N/D)) for N # 0
AdjRatio(N, D) ==
  LET k0 == NumDigits(N) - NumDigits(D)
      ge == IF k0 >= 0 THEN Cmp(N, MulPow10(D, k0)) >= 0 ELSE Cmp(MulPow10(N, -k0), D) >= 0
  IN IF ge THEN k0 ELSE k0 - 1

\* (N/D)*10^e rounded to an integer multiple of 10^q: [c, inexact, half]
RoundAt(mode, neg, N, D, e, q) ==
  LET s   == e - q
      num == IF s >= 0 THEN MulPow10(N, s) ELSE N
      den == IF s >= 0 THEN D ELSE MulPow10(D, -s)
      qr  == IF den = One THEN <<num, <<>>>>
             ELSE IF D = One /\ s < 0 THEN <<DropDigits(N, -s)[1], ModPow10(N, -s)>>
             ELSE DivMod(num, den)
      inx == ~IsZero(qr[2])
      half == IF inx THEN Cmp(Add(qr[2], qr[2]), den) ELSE -1
  IN [c |-> IF Inc(mode, neg, qr[1], half, inx) THEN Add(qr[1], One) ELSE qr[1], inexact |-> inx, t |-> qr[1]]

ZeroR(neg) == [kind |-> "zero", n |-> neg, c |-> <<>>, e |-> 0,
               inexact |-> FALSE, subnormal |-> FALSE, overflow |-> FALSE, rounded |-> FALSE]

\* exact value +-(N/D)*10^e rounded once to ctx (ctx.p >= 1)
RoundOnce(ctx, neg, N, D, e) ==
  IF IsZero(N) THEN ZeroR(neg)
  ELSE LET adjE == AdjRatio(N, D) + e                 \* adjusted exponent of the exact value
           sub  == adjE < ctx.emin                    \* Subnormal is decided before rounding
           q    == IF sub THEN Etiny(ctx) ELSE adjE - ctx.p + 1
           ra   == RoundAt(ctx.r, neg, N, D, e, q)
           carry == NumDigits(ra.c) > ctx.p            \* all-nines carry: 10^p, renormalised to p digits
           C    == IF carry THEN DropDigits(ra.c, 1)[1] ELSE ra.c
           qq   == IF carry THEN q + 1 ELSE q
           ovf  == ~IsZero(C) /\ qq + NumDigits(C) - 1 > ctx.emax
       IN [kind |-> IF ovf THEN "inf" ELSE "fin", n |-> neg, c |-> C, e |-> qq,
           inexact |-> ra.inexact \/ ovf, subnormal |-> sub, overflow |-> ovf,
           rounded |-> ra.inexact \/ e < q]

\* ---- relational restatement (used only by MC_Round to validate RoundOnce) ----
\* c is a correct rounding of (N/D)*10^(e-q) to an integer under mode: it is floor or
\* floor+1 of the exact scaled value and the choice follows the mode's rule.
IsRoundedAt(mode, neg, N, D, e, q, c) ==
  LET s   == e - q
      num == IF s >= 0 THEN MulPow10(N, s) ELSE N
      den == IF s >= 0 THEN D ELSE MulPow10(D, -s)
      lo  == Cmp(Mul(c, den), num)                       \* c*den ? num
      exact == lo = 0
      below == lo < 0 /\ Cmp(num, Mul(Add(c, One), den)) < 0        \* c < v < c+1 : truncated
      above == lo > 0 /\ ~IsZero(c) /\ Cmp(Mul(Sub(c, One), den), num) < 0   \* c-1 < v < c : incremented
      \* distance of v to the lower neighbour, doubled, against den
      t   == IF above THEN Sub(c, One) ELSE c
      twice == Cmp(Add(Sub(num, Mul(t, den)), Sub(num, Mul(t, den))), den)
  IN \/ exact
     \/ /\ below
        /\ CASE mode = "down" -> TRUE
             [] mode = "up" -> FALSE
             [] mode = "ceiling" -> neg
             [] mode = "floor" -> ~neg
             [] mode = "half_down" -> twice <= 0
             [] mode = "half_even" -> twice < 0 \/ (twice = 0 /\ ~IsOdd(c))
             [] mode = "05up" -> LastDigit(c) \notin {0, 5}
             [] OTHER -> twice < 0
     \/ /\ above
        /\ CASE mode = "down" -> FALSE
             [] mode = "up" -> TRUE
             [] mode = "ceiling" -> ~neg
             [] mode = "floor" -> neg
             [] mode = "half_down" -> twice > 0
             [] mode = "half_even" -> twice > 0 \/ (twice = 0 /\ IsOdd(t))
             [] mode = "05up" -> LastDigit(t) \in {0, 5}
             [] OTHER -> twice >= 0
=============================================================================
