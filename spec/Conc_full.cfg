SPECIFICATION Spec
CONSTANTS Procs = {1, 2, 3, 4}
  AllowViewWrite = FALSE
INVARIANTS SharedUnchanged SameAsAlone
PROPERTY OwnDestinationOnly
CHECK_DEADLOCK FALSE
