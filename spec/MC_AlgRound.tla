----------------------------- MODULE MC_AlgRound -----------------------------
(* AlgRound => Spec (Arith!Rnd) on the boundary domain: value (numerically, *)
(* with the sign), the decided condition bits, the implications between     *)
(* conditions, C07's fit - plus facts about the free bits that the code     *)
(* model promises: Rounded whenever digits were removed.                    *)
EXTENDS AlgRound
CONSTANTS NMax, SignFix
VARIABLES neg, n, e, ctx
vars == <<neg, n, e, ctx>>
Ns == (0..NMax) \cup {149, 150, 151, 250, 499, 500, 501, 949, 950, 951, 995, 999, 1000, 1001, 1499, 1500, 1501, 9995, 9999, 99949, 99950, 99951, 999999}
Ctxs == {[p |-> p, emin |-> rg[1], emax |-> rg[2], r |-> m, t |-> 0] : p \in {0, 1, 2, 3}, rg \in {<<-2, 3>>, <<0, 3>>, <<-100, 100>>}, m \in Modes \cup {""}}
Init == neg \in BOOLEAN /\ n = -1 /\ e \in -5..4 /\ ctx \in Ctxs
Next == n = -1 /\ n' \in Ns /\ UNCHANGED <<neg, e, ctx>>
X == [f |-> FIN, n |-> neg, c |-> FromInt(IF n < 0 THEN 0 ELSE n), e |-> e]
A == AlgRoundP(ctx, X, SignFix)
W == Rnd(ctx, neg, X.c, One, e)
Got == [f |-> A.f, n |-> neg, c |-> A.c, e |-> A.e, cs |-> 1]
FlInt == (IF F_OVF \in A.fl THEN F_OVF ELSE 0) + (IF F_UNF \in A.fl THEN F_UNF ELSE 0) + (IF F_INEXACT \in A.fl THEN F_INEXACT ELSE 0)
       + (IF F_SUBN \in A.fl THEN F_SUBN ELSE 0) + (IF F_ROUNDED \in A.fl THEN F_ROUNDED ELSE 0) + (IF F_CLAMPED \in A.fl THEN F_CLAMPED ELSE 0)
Refines == n >= 0 =>
   /\ ValueOK(W, Got)
   /\ FlagsOK("round", W, Got, FlInt)
   /\ FlagImpOK(Got, FlInt)
   /\ (W.k # "skip" => Fits(ctx, Got))
DigitsRemovedRounded == (n >= 0 /\ ctx.p > 0 /\ A.f = FIN /\ ~IsZero(X.c) /\ A.e > e) => F_ROUNDED \in A.fl
=============================================================================
