SPECIFICATION Spec
CONSTANTS Cap = 4
  MaxIter = 3
  CheckErr = TRUE
INVARIANT TypeOK
PROPERTY Returns
CHECK_DEADLOCK FALSE
