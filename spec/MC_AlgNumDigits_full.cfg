INIT Init
NEXT Next
CONSTANTS Small = 9000
  KMax = 200
  ShortcutOK = TRUE
  Geq = TRUE
INVARIANTS Agrees PowTen TableLaw
CHECK_DEADLOCK FALSE
