---------------------------- MODULE Gen_Domain ----------------------------
(***************************************************************************)
(* Spec -> code: the small boundary domain S on which the drivers run      *)
(* exhaustively is DEFINED here and exported by TLC as ndjson; the harness *)
(* iterates exactly this set (VERIF_DOMAIN_DIR).                           *)
(*  K: every tie, all-nines carry and one-plus-epsilon shape for p <= 3.   *)
(***************************************************************************)
EXTENDS DecBase, Json, SequencesExt, FiniteSetsExt
VARIABLE i
K == {0, 1, 2, 4, 5, 6, 9, 10, 11, 15, 25, 49, 50, 51, 95, 99, 100, 101, 149, 150, 151, 250, 499, 500,
      501, 949, 950, 951, 995, 999, 1000, 1001, 1499, 1500, 1501, 9995, 9999}
Kq == {0, 1, 5, 9, 10, 15, 25, 50, 51, 95, 99, 100, 149, 150, 151, 500, 995, 999, 1001, 9995}
Exps == -3..2
Fins(KK, EE) == {[f |-> FIN, n |-> n, c |-> FromInt(k), e |-> e, cs |-> IF k = 0 THEN 0 ELSE 1] : k \in KK, e \in EE, n \in BOOLEAN}
Specials == {[f |-> f, n |-> n, c |-> <<>>, e |-> 0, cs |-> 0] : f \in {INF, SNAN, QNAN}, n \in BOOLEAN}
DomainS == Fins(K, Exps) \cup Specials
DomainSq == Fins(Kq, {-3, -1, 0, 2}) \cup Specials
Ranges == {<<-2, 3>>, <<0, 3>>, <<-100, 100>>}
Ctxs(PP, RR) == {[p |-> p, emin |-> rg[1], emax |-> rg[2], r |-> m, t |-> 0] : p \in PP, rg \in RR, m \in Modes \cup {""}}
CtxS == Ctxs({1, 2, 3}, Ranges)
CtxSq == Ctxs({1, 2, 3}, {<<-2, 3>>})
ASSUME \A d \in DomainS : WFDecimal(d)
ASSUME \A c \in CtxS : WFContext(c)
ASSUME ndJsonSerialize("domainS.ndjson", SetToSeq(DomainS))
ASSUME ndJsonSerialize("domainSq.ndjson", SetToSeq(DomainSq))
ASSUME ndJsonSerialize("ctxS.ndjson", SetToSeq(CtxS))
ASSUME ndJsonSerialize("ctxSq.ndjson", SetToSeq(CtxSq))
ASSUME PrintT(<<"DOMAIN", Cardinality(DomainS), Cardinality(DomainSq), Cardinality(CtxS), Cardinality(CtxSq)>>)
Init == i = 0
Next == FALSE /\ i' = i
=============================================================================
