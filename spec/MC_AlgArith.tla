---------------------------- MODULE MC_AlgArith ----------------------------
(* AlgArith => layer 1 on a boundary domain of operand pairs; one state per (context, signs, x, y). *)
EXTENDS AlgArith
CONSTANTS NMax, FloorFix, FlipFix, RemSign, Lvl
VARIABLES st, ctx, xneg, yneg, xn, xe, yn, ye
vars == <<st, ctx, xneg, yneg, xn, xe, yn, ye>>
Ns == (0..NMax) \cup {49, 50, 51, 99, 100, 101, 150, 500}
      \cup (IF Lvl >= 1 THEN {95, 149, 499, 501} ELSE {})
      \cup (IF Lvl >= 2 THEN {949, 950, 995, 999, 1000, 1001, 4999, 5000, 5001, 9995, 9999, 99999} ELSE {})
Es == IF Lvl >= 2 THEN {-3, -2, -1, 0, 1, 3} ELSE IF Lvl = 1 THEN {-2, -1, 0, 2} ELSE {-1, 0, 2}
Ctxs == {[p |-> p, emin |-> rg[1], emax |-> rg[2], r |-> m, t |-> 0] : p \in {1, 2, 3}, rg \in {<<-2, 3>>, <<-100, 100>>}, m \in Modes \cup {""}}
Init == st = 0 /\ ctx \in Ctxs /\ xneg \in BOOLEAN /\ yneg \in BOOLEAN /\ xn = 0 /\ xe = 0 /\ yn = 0 /\ ye = 0
Next == st = 0 /\ st' = 1 /\ xn' \in Ns /\ yn' \in Ns /\ xe' \in Es /\ ye' \in Es /\ UNCHANGED <<ctx, xneg, yneg>>
X == [f |-> FIN, n |-> xneg, c |-> FromInt(xn), e |-> xe]
Y == [f |-> FIN, n |-> yneg, c |-> FromInt(yn), e |-> ye]
InfD(s) == [f |-> INF, n |-> s, c |-> <<>>, e |-> 0]
FlInt(s) == (IF F_OVF \in s THEN F_OVF ELSE 0) + (IF F_UNF \in s THEN F_UNF ELSE 0) + (IF F_INEXACT \in s THEN F_INEXACT ELSE 0)
          + (IF F_SUBN \in s THEN F_SUBN ELSE 0) + (IF F_ROUNDED \in s THEN F_ROUNDED ELSE 0) + (IF F_CLAMPED \in s THEN F_CLAMPED ELSE 0)
          + (IF F_INVALID \in s THEN F_INVALID ELSE 0) + (IF F_DIVUNDEF \in s THEN F_DIVUNDEF ELSE 0)
          + (IF F_DIVZERO \in s THEN F_DIVZERO ELSE 0) + (IF F_DIVIMP \in s THEN F_DIVIMP ELSE 0)
GotOf(a) == [f |-> a.f, n |-> a.n, c |-> a.c, e |-> a.e, cs |-> 1]
RefinesOp(op, w, a) ==
   /\ ValueOK(w, GotOf(a))
   /\ FlagsOK(op, w, GotOf(a), FlInt(a.fl))
   /\ FlagImpOK(GotOf(a), FlInt(a.fl))
   /\ (w.k # "skip" => Fits(ctx, GotOf(a)))
AddRefines == st = 1 => \A sub \in BOOLEAN :
   RefinesOp(IF sub THEN "sub" ELSE "add", Spec_AddSub(ctx, X, Y, sub), AlgAddP(ctx, X, Y, sub, FloorFix))
MulRefines == st = 1 => RefinesOp("mul", Spec_Mul(ctx, X, Y), AlgMul(ctx, X, Y))
CmpRefines == st = 1 =>
   /\ AlgCmpP(X, Y, FlipFix) = CmpSpec(X, Y)
   /\ \A s \in BOOLEAN : /\ AlgCmpP(X, InfD(s), FlipFix) = CmpSpec(X, InfD(s))
                         /\ AlgCmpP(InfD(s), X, FlipFix) = CmpSpec(InfD(s), X)
                         /\ AlgCmpP(InfD(s), InfD(yneg), FlipFix) = CmpSpec(InfD(s), InfD(yneg))
   /\ AlgCmpP(X, Y, FlipFix) = -AlgCmpP(Y, X, FlipFix)                                              \* antisymmetry, directly on the algorithm
DivRefines == st = 1 =>
   /\ RefinesOp("quoint", Spec_QuoInt(ctx, X, Y), AlgQuoInt(ctx, X, Y))
   /\ RefinesOp("rem", Spec_Rem(ctx, X, Y), AlgRemP(ctx, X, Y, RemSign))
   /\ \A s \in BOOLEAN :
        /\ RefinesOp("quoint", Spec_QuoInt(ctx, X, InfD(s)), AlgQuoInt(ctx, X, InfD(s)))
        /\ RefinesOp("quoint", Spec_QuoInt(ctx, InfD(s), Y), AlgQuoInt(ctx, InfD(s), Y))
        /\ RefinesOp("rem", Spec_Rem(ctx, X, InfD(s)), AlgRemP(ctx, X, InfD(s), RemSign))
        /\ RefinesOp("rem", Spec_Rem(ctx, InfD(s), Y), AlgRemP(ctx, InfD(s), Y, RemSign))
   \* the division identity on the algorithm's own outputs, when both are finite and nothing was rounded away
   /\ LET q == AlgQuoInt(ctx, X, Y)  r == AlgRemP(ctx, X, Y, TRUE) IN
      (q.f = FIN /\ r.f = FIN /\ F_INEXACT \notin r.fl /\ SignD(Y) # 0) =>
          LET m == IF xe < ye THEN xe ELSE ye
              lhs == MulPow10(X.c, xe - m)                              \* |x| at exponent m
              qy == MulPow10(Mul(q.c, Y.c), ye - m)                     \* |q*y| at exponent m
              rr == MulPow10(r.c, r.e - m)
          IN r.e >= m /\ lhs = Add(qy, rr) /\ CmpMag(r.c, r.e, Y.c, ye) < 0
\* the unary entry points: once per x (y at its first value)
UnaryRefines == (st = 1 /\ yn = 0 /\ ye = 0 /\ ~yneg) =>
   /\ \A op \in {"abs", "neg", "round"} : RefinesOp(op, Want(op, ctx, X, X, 0), AlgUnary(ctx, X, op))
   /\ LET r == AlgReduce(ctx, X) IN
        /\ RefinesOp("reduce", Want("reduce", ctx, X, X, 0), r.o)
        /\ (r.o.f = FIN => (IF IsZero(r.o.c) THEN r.o.e = 0 ELSE LastDigit(r.o.c) # 0))
        /\ r.cnt >= 0
=============================================================================
