----------------------------- MODULE MC_Round -----------------------------
(***************************************************************************)
(* Validation of the central definition RoundOnce independently of the     *)
(* code: TLC enumerates exact values +-(N/D)*10^e and contexts and checks  *)
(*  (1) agreement with the relational restatement IsRoundedAt,             *)
(*  (2) C07 as a theorem: the result fits the context,                     *)
(*  (3) C02 as theorems: Inexact <=> value # exact, Subnormal <=> exact    *)
(*      below 10^emin, Overflow => Inexact,                                *)
(*  (4) idempotence, (5) monotonicity in the exact value,                  *)
(*  (6) C20: the eight modes bracket each other.                           *)
(***************************************************************************)
EXTENDS Round, FiniteSets
CONSTANTS NMax, Ds, ELo, EHi
VARIABLES neg, n, d, e, ctx
vars == <<neg, n, d, e, ctx>>
Ns == (0..NMax) \cup {149, 150, 151, 250, 499, 500, 501, 949, 950, 951, 995, 999, 1000, 1001, 1499, 1500, 1501, 9995, 9999, 99949, 99950, 99951}
Ctxs == {[p |-> p, emin |-> rg[1], emax |-> rg[2], r |-> m, t |-> 0] : p \in {1, 2, 3}, rg \in {<<-2, 3>>, <<0, 3>>}, m \in Modes \cup {""}}
\* n = -1 is a seed state: TLC computes initial states on one thread, so the exact
\* values are generated as successors (in parallel) of 4320 cheap seed states.
Init == neg \in BOOLEAN /\ n = -1 /\ d \in Ds /\ e \in (-ELo)..EHi /\ ctx \in Ctxs
Next == n = -1 /\ n' \in Ns /\ UNCHANGED <<neg, d, e, ctx>>

N == FromInt(IF n < 0 THEN 0 ELSE n)
D == FromInt(d)
R == RoundOnce(ctx, neg, N, D, e)
\* exact comparisons of c*10^q (times D) against N*10^e
Scaled(c, q) == IF q >= e THEN <<Mul(MulPow10(c, q - e), D), N>> ELSE <<Mul(c, D), MulPow10(N, e - q)>>
CmpExact(c, q) == LET s == Scaled(c, q) IN Cmp(s[1], s[2])      \* c*10^q ? exact

Relational == (n >= 0 /\ R.kind = "fin") => IsRoundedAt(ctx.r, neg, N, D, e, R.e, R.c)
FitsThm == (n >= 0 /\ R.kind = "fin") =>
             /\ NumDigits(R.c) <= ctx.p
             /\ R.e >= Etiny(ctx)
             /\ (~IsZero(R.c) => R.e + NumDigits(R.c) - 1 <= ctx.emax)
             /\ (~R.subnormal => (IsZero(R.c) \/ NumDigits(R.c) = ctx.p))        \* exactly p digits in the normal range
FlagThm == n > 0 =>
             /\ R.kind = "fin" => (R.inexact <=> CmpExact(R.c, R.e) # 0)
             /\ R.subnormal <=> (CmpMag(N, e, D, ctx.emin) < 0)              \* N*10^e < D*10^emin
             /\ R.overflow => R.inexact
             /\ R.kind = "inf" <=> R.overflow
             /\ (R.overflow => ~R.subnormal)
Idem == (n >= 0 /\ R.kind = "fin" /\ ~IsZero(R.c)) =>
          LET r2 == RoundOnce(ctx, neg, R.c, One, R.e) IN
          r2.kind = "fin" /\ ~r2.inexact /\ NumEq(r2.c, r2.e, R.c, R.e)
\* signed comparison of two RoundOnce results of the same sign (inf largest)
MagLE(a, b) == IF b.kind = "inf" THEN TRUE ELSE IF a.kind = "inf" THEN FALSE ELSE CmpMag(a.c, a.e, b.c, b.e) <= 0
Mono == n >= 0 => LET r1 == RoundOnce(ctx, neg, Add(N, One), D, e) IN MagLE(R, r1)
Bracket == (n >= 0 /\ ctx.r = "down") =>
   LET RM(m) == RoundOnce([ctx EXCEPT !.r = m], neg, N, D, e)
       dn == RM("down")  up == RM("up")  fl == RM("floor")  ce == RM("ceiling")
   IN \A m \in Modes \cup {""} :
        LET r == RM(m) IN
        /\ MagLE(dn, r) /\ MagLE(r, up)
        /\ (IF neg THEN MagLE(r, fl) /\ MagLE(ce, r) ELSE MagLE(fl, r) /\ MagLE(r, ce))
        /\ (m \in {"half_up", "half_even", "half_down", ""} => (r = dn \/ r = up))
        /\ (~dn.inexact => r = dn)
        /\ ((dn.inexact /\ ~dn.overflow) => dn # up)
        /\ r.inexact = dn.inexact \/ r.overflow \/ dn.overflow
        /\ r.subnormal = dn.subnormal
=============================================================================
