------------------------------ MODULE TraceRel ------------------------------
(***************************************************************************)
(* Code -> spec, relational part: GROUPS of recorded executions of the     *)
(* same case are compared with each other.  No arithmetic oracle is        *)
(* imported here (only DecBase: representation, order, equality), so a     *)
(* misunderstanding shared by RoundOnce and the code cannot hide a defect  *)
(* in these laws.                                                          *)
(*   gk = "modes"  : one call under the eight rounding modes        (C20)  *)
(*        "mono"   : Round on an ascending operand list             (C20)  *)
(*        "swap" "subneg" "mirror" "scale" : transformed operands   (C20)  *)
(*        "traps"  : one call under the empty and other trap sets   (C03)  *)
(*        "alias"  : one call under the alias patterns              (C05)  *)
(*        "pre"    : one call into different destination pre-states (C06)  *)
(***************************************************************************)
EXTENDS DecBase, Json
T == ndJsonDeserialize("trace.ndjson")
VARIABLE l

Names(seq) == {seq[i][1] : i \in {j \in 1..Len(seq) : ~seq[j][2]}}
Num(r) == r.res.f \in {FIN, INF}                     \* a number (not NaN, not a failed run)
Ran(r) == r.panic = ""
LE(a, b) == CmpSpec(a.res, b.res) <= 0
EQ(a, b) == CmpSpec(a.res, b.res) = 0
AbsD(d) == [d EXCEPT !.n = FALSE]
MagLE(a, b) == CmpSpec(AbsD(a.res), AbsD(b.res)) <= 0
Inx(r) == Bit(r.fl, F_INEXACT)
Ovf(r) == Bit(r.fl, F_OVF)
\* same observable outcome (value representation, flags, error, count)
\* a composite function that returns an error leaves an unspecified destination (C03): only flags and error compared
CompositeOps == {"sqrt", "cbrt", "exp", "ln", "log10", "pow"}
SameOut(a, b) == /\ a.panic = b.panic
                 /\ ((a.err = "" \/ a.op \notin CompositeOps) => (SameRepr(a.res, b.res) /\ a.res.cs = b.res.cs))
                 /\ a.fl = b.fl /\ a.err = b.err /\ a.cnt = b.cnt
Run(ev, tag) == LET S == {i \in 1..Len(ev.runs) : ev.runs[i].tag = tag} IN ev.runs[CHOOSE i \in S : TRUE]
HasRun(ev, tag) == \E i \in 1..Len(ev.runs) : ev.runs[i].tag = tag
AllRuns(ev) == {ev.runs[i] : i \in 1..Len(ev.runs)}

\* |c - f| is one unit of the finer of the two exponents
Adjacent(f, c) ==
  LET m == IF f.e < c.e THEN f.e ELSE c.e
      fc == MulPow10(f.c, f.e - m)
      cc == MulPow10(c.c, c.e - m)
  IN IF f.n = c.n \/ IsZero(f.c) \/ IsZero(c.c)
     THEN (IF Cmp(fc, cc) >= 0 THEN Sub(fc, cc) ELSE Sub(cc, fc)) = One
     ELSE FALSE                                   \* of opposite non-zero signs: never adjacent
\* largest finite value of the context
IsMaxFinite(ctx, d) == d.f = FIN /\ NumDigits(d.c) = ctx.p /\ Add(d.c, One) = Pow10(ctx.p) /\ d.e + ctx.p - 1 = ctx.emax

Verdict_modes(ev) ==
  LET dn == Run(ev, "down")   up == Run(ev, "up")
      fl == Run(ev, "floor")  ce == Run(ev, "ceiling")
      R == AllRuns(ev)
      nums == {r \in R : Num(r)}
      allnum == \A r \in R : Num(r)
  IN IF \E r \in R : ~Ran(r) THEN {"panic"}
     ELSE Names(<<
       <<"floor-ceiling", (Num(fl) /\ Num(ce)) => \A r \in nums : LE(fl, r) /\ LE(r, ce)>>,
       <<"down-up",       (Num(dn) /\ Num(up)) => \A r \in nums : MagLE(dn, r) /\ MagLE(r, up)>>,
       <<"half-in-pair",  (Num(dn) /\ Num(up)) =>
                            \A r \in nums : r.tag \in {"half_up", "half_even", "half_down", ""} => (EQ(r, dn) \/ EQ(r, up))>>,
       <<"exact-coincide", (allnum /\ \E r \in R : ~Inx(r)) => \A r \in R : ~Inx(r) /\ EQ(r, dn)>>,
       <<"inexact-differ", (Num(dn) /\ Num(up) /\ Inx(dn) /\ ~Ovf(dn) /\ ~Ovf(up)) => ~EQ(dn, up)>>,
       <<"adjacent",      (Num(fl) /\ Num(ce) /\ ~EQ(fl, ce)) =>
                            IF fl.res.f = FIN /\ ce.res.f = FIN THEN Adjacent(fl.res, ce.res)
                            ELSE IF ce.res.f = INF /\ fl.res.f = FIN THEN ~ce.res.n /\ ~fl.res.n /\ IsMaxFinite(ev.ctx, fl.res)
                            ELSE IF fl.res.f = INF /\ ce.res.f = FIN THEN fl.res.n /\ ce.res.n /\ IsMaxFinite(ev.ctx, ce.res)
                            ELSE FALSE>> >>)

Verdict_mono(ev) ==       \* runs are Round(x_i) for ascending x_i
  IF \E r \in AllRuns(ev) : ~Ran(r) THEN {"panic"}
  ELSE Names(<< <<"monotone", \A i \in 1..(Len(ev.runs) - 1) :
                    (Num(ev.runs[i]) /\ Num(ev.runs[i + 1])) => LE(ev.runs[i], ev.runs[i + 1])>> >>)

\* the two runs of a transformed pair: "a" the original, "b" the transformed call
NegD(d) == [d EXCEPT !.n = ~d.n]
Normal(ctx, r) == /\ r.res.f = FIN /\ ~IsZero(r.res.c) /\ ~Bit(r.fl, F_SUBN) /\ ~Bit(r.fl, F_OVF)
                  /\ Adj(r.res) >= ctx.emin /\ Adj(r.res) <= ctx.emax
FlagsEq(a, b) == \A bit \in AllBits \ {F_ROUNDED, F_CLAMPED} : Bit(a.fl, bit) = Bit(b.fl, bit)
Verdict_pair(ev) ==
  LET a == Run(ev, "a")  b == Run(ev, "b") IN
  IF ~Ran(a) \/ ~Ran(b) THEN {"panic"}
  ELSE IF ~Num(a) \/ ~Num(b) THEN Names(<< <<"pair-form", a.res.f = b.res.f>> >>)
  ELSE CASE ev.gk \in {"swap", "subneg"} ->
              Names(<< <<ev.gk, EQ(a, b) /\ (ZeroD(a.res) => a.res.n = b.res.n) /\ FlagsEq(a, b)>> >>)
         [] ev.gk = "mirror" ->
              Names(<< <<"mirror", CmpSpec(NegD(a.res), b.res) = 0 /\ FlagsEq(a, b)>> >>)
         [] ev.gk = "scale" ->
              Names(<< <<"scale", (Normal(a.ctx, a) /\ Normal(b.ctx, b)) =>
                         (/\ a.res.n = b.res.n /\ NumEq(a.res.c, a.res.e + ev.kk, b.res.c, b.res.e)
                          /\ FlagsEq(a, b))>> >>)
         [] OTHER -> {"unknown-gk"}

\* C03: run "0" under the empty trap set, the others under trap set r.ctx.t
SingleRounding == {"add", "sub", "mul", "quo", "quoint", "rem", "abs", "neg", "round", "quantize",
                   "tointx", "tointv", "reduce", "cmp"}
SysF(r) == Bit(r.fl, F_SYSOVF) \/ Bit(r.fl, F_SYSUNF)
Verdict_traps(ev) ==
  LET z == Run(ev, "0")
      others == {r \in AllRuns(ev) : r.tag # "0"}
  IN IF \E r \in AllRuns(ev) : ~Ran(r) THEN {"panic"}
     ELSE Names(<<
       <<"trap-error",   \A r \in others : (And(z.fl, r.ctx.t) # 0 \/ SysF(z)) => r.err # "">>,
       <<"nil-same",     \A r \in others : r.err = "" => (SameRepr(r.res, z.res) /\ r.fl = z.fl /\ r.cnt = z.cnt)>>,
       <<"error-iff",    ev.op \in SingleRounding => \A r \in others : (r.err # "") = (And(z.fl, r.ctx.t) # 0 \/ SysF(z))>>,
       <<"delivered",    ev.op \in SingleRounding => \A r \in others :
                            (r.err # "" /\ ~SysF(z)) => (SameRepr(r.res, z.res) /\ r.fl = z.fl /\ r.cnt = z.cnt)>>,
       <<"no-trap-no-error", z.err = "" \/ SysF(z) \/ z.err = "Context may not have 0 Precision for this operation">> >>)

\* C05 / C06: all runs must have the same observable outcome
Verdict_same(ev) ==
  LET r1 == ev.runs[1] IN
  IF \E r \in AllRuns(ev) : ~Ran(r) THEN {"panic"}
  ELSE Names(<< <<ev.gk, \A r \in AllRuns(ev) : SameOut(r, r1)>>,
                <<"frame", \A r \in AllRuns(ev) :
                     /\ r.ctxa = r.ctx
                     /\ (r.al \notin {"dx", "dxy"} => SameRepr(r.xa, r.x))
                     /\ (r.al \notin {"dy", "dxy", "xy"} => SameRepr(r.ya, r.y))>> >>)

\* the rounding kernel (stated here again, TraceRel imports no other oracle): the exported
\* Rounder.ShouldAddOne must be Inc for a non-zero discarded part; proofs/Kern.tla proves the C20 laws of Inc
IncK(mode, neg, C, half) ==
  CASE mode = "down"      -> FALSE
    [] mode = "up"        -> TRUE
    [] mode = "ceiling"   -> ~neg
    [] mode = "floor"     -> neg
    [] mode = "half_down" -> half > 0
    [] mode = "half_even" -> half > 0 \/ (half = 0 /\ IsOdd(C))
    [] mode = "05up"      -> LastDigit(C) \in {0, 5}
    [] OTHER              -> half >= 0

Verdict(ev) ==
  CASE ev.k = "sao" -> Names(<< <<"should-add-one", ev.ret = IncK(ev.mode, ev.neg, ev.c, ev.half)>> >>)
    [] ev.k = "sh" -> Names(<< <<"shared-state", ev.before = ev.after>> >>)
    [] ev.gk = "modes" -> Verdict_modes(ev)
    [] ev.gk = "mono" -> Verdict_mono(ev)
    [] ev.gk \in {"swap", "subneg", "mirror", "scale"} -> Verdict_pair(ev)
    [] ev.gk = "traps" -> Verdict_traps(ev)
    [] ev.gk \in {"alias", "pre"} -> Verdict_same(ev)
    [] OTHER -> {"unknown-group"}

Init == l = 0
Next == l < Len(T) /\ l' = l + 1
Inv == l = 0 \/ LET v == Verdict(T[l]) IN (v = {} \/ PrintT(<<"VIOL", l, v>>))
=============================================================================
