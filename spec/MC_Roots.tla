------------------------------ MODULE MC_Roots ------------------------------
(* Sanity of the acceptance predicates, independent of the code: on small  *)
(* integers SqrtOK accepts exactly the half-even rounding of the true root *)
(* (computed here by exhaustive search), CbrtOK accepts the true root's    *)
(* neighbours within one unit and nothing else.                            *)
EXTENDS Roots
VARIABLES x, r
Init == x \in 1..400 /\ r = 0
Next == r = 0 /\ r' \in 1..30 /\ UNCHANGED x
\* p = 1 or 2 digit results at exponent 0 for x with exponent 0: r is acceptable iff it is the nearest integer (ties impossible for integers... (r+1/2)^2 is never an integer)
Nearest(xx, rr) == (2 * rr - 1) * (2 * rr - 1) < 4 * xx /\ 4 * xx < (2 * rr + 1) * (2 * rr + 1)
SqrtAgrees == (r > 0 /\ r >= 10) =>
   (SqrtOK(FromInt(x), 0, FromInt(r), 0, 2, r * r # x) <=> (r * r = x \/ Nearest(x, r)))
SqrtExactFlag == (r > 0 /\ r * r = x) => (SqrtOK(FromInt(x), 0, FromInt(r), 0, 2, FALSE) /\ ~SqrtOK(FromInt(x), 0, FromInt(r), 0, 2, TRUE))
CbrtAgrees == (r >= 10 /\ r * r * r # x * 100) =>
   (CbrtOK(FromInt(x * 100), 0, FromInt(r), 0, 2, TRUE) <=> ((r - 1) * (r - 1) * (r - 1) < x * 100 /\ x * 100 < (r + 1) * (r + 1) * (r + 1)))
=============================================================================
