------------------------------ MODULE MC_Roots ------------------------------
(* Sanity of the acceptance predicates, independent of the code: on small  *)
(* integers SqrtOK accepts exactly the half-even rounding of the true root *)
(* (computed here by exhaustive search), CbrtOK accepts the true root's    *)
(* neighbours within one unit and nothing else.                            *)
EXTENDS Roots
VARIABLES x, r
Init == x \in 1..400 /\ r = 0
Next == r = 0 /\ r' \in 1..30 /\ UNCHANGED x
\* two-digit results at exponent 0: r is acceptable iff it is the nearest representable value; the
\* representable values below 10 are 9.9, 9.8, ... so for r = 10 the lower half-way point is 9.95
Nearest(xx, rr) == /\ (IF rr = 10 THEN 400 * xx > 199 * 199 ELSE (2 * rr - 1) * (2 * rr - 1) < 4 * xx)
                   /\ 4 * xx < (2 * rr + 1) * (2 * rr + 1)
\* x = 99: sqrt = 9.9499 rounds to 9.9, not to 10
BinadeCase == ~SqrtOK(FromInt(99), 0, FromInt(10), 0, 2, TRUE) /\ SqrtOK(FromInt(99), 0, FromInt(99), -1, 2, TRUE)
              /\ ~SqrtOK(<<999, 999>>, 14, <<0, 100>>, 5, 6, TRUE) /\ SqrtOK(<<999, 999>>, 14, <<999, 999>>, 4, 6, TRUE)
SqrtAgrees == (r > 0 /\ r >= 10) =>
   (SqrtOK(FromInt(x), 0, FromInt(r), 0, 2, r * r # x) <=> (r * r = x \/ Nearest(x, r)))
SqrtExactFlag == (r > 0 /\ r * r = x) => (SqrtOK(FromInt(x), 0, FromInt(r), 0, 2, FALSE) /\ ~SqrtOK(FromInt(x), 0, FromInt(r), 0, 2, TRUE))
CbrtAgrees == (r >= 10 /\ r * r * r # x * 100) =>
   (CbrtOK(FromInt(x * 100), 0, FromInt(r), 0, 2, TRUE) <=>
      (/\ (IF r = 10 THEN 99 * 99 * 99 < x * 100000 ELSE (r - 1) * (r - 1) * (r - 1) < x * 100)     \* below 10 one unit is 0.1
       /\ x * 100 < (r + 1) * (r + 1) * (r + 1)))
=============================================================================
