----------------------------- MODULE MC_ErrDec -----------------------------
(* ErrDecimal / register machine over an abstract operation table:         *)
(* values 0..3, op "inc" (wraps at 3 raising flag "ovf"), op "half"        *)
(* (raises "inx" on odd values), op "div" (raises "dz" when the second     *)
(* operand is 0 and yields the sentinel 9).  Trap sets are subsets of the  *)
(* flags.  Checked: the first error is sticky, after an error no register  *)
(* changes and no flag is added, flags only grow, a step never touches a   *)
(* register other than its destination, and the wrapper's effect equals    *)
(* the direct call's effect while no error is recorded.                    *)
EXTENDS ErrDec, FiniteSets
CONSTANT Traps
Regs == {1, 2, 3}
Flags == {"ovf", "inx", "dz"}
VARIABLES reg, ed, last
vars == <<reg, ed, last>>
Outcome(op, x, y) ==
  LET r == CASE op = "inc" -> [val |-> (x + 1) % 4, fl |-> IF x = 3 THEN {"ovf"} ELSE {}]
             [] op = "half" -> [val |-> x \div 2, fl |-> IF x % 2 = 1 THEN {"inx"} ELSE {}]
             [] OTHER -> IF y = 0 THEN [val |-> 9, fl |-> {"dz"}] ELSE [val |-> x \div y, fl |-> IF x % y # 0 THEN {"inx"} ELSE {}]
  IN [val |-> r.val, fl |-> r.fl, err |-> r.fl \cap Traps # {}]
Union(a, b) == a \cup b
Init == reg \in [Regs -> {0, 1, 3}] /\ ed = [err |-> FALSE, flags |-> {}] /\ last = [skipped |-> FALSE, d |-> 1, direct |-> reg]
Do(op, d, x, y) ==
  LET out == Outcome(op, reg[x] % 4, reg[y] % 4)
      nx == EdStep(reg, ed, d, out, Union)
  IN /\ reg' = nx.reg /\ ed' = nx.ed
     /\ last' = [skipped |-> ed.err, d |-> d, direct |-> CtxStep(reg, d, out)]
Next == \E op \in {"inc", "half", "div"}, d, x, y \in Regs : Do(op, d, x, y)
Spec == Init /\ [][Next]_vars
Sticky == [][ed.err => ed'.err]_vars
SkipAfterError == [][ed.err => (reg' = reg /\ ed'.flags = ed.flags)]_vars
FlagsGrow == [][ed.flags \subseteq ed'.flags]_vars
Frame == [][\A r \in Regs : r # last'.d => reg'[r] = reg[r]]_vars
SameAsDirect == ~last.skipped => reg = last.direct
ErrIffTrapped == ed.err => ed.flags \cap Traps # {}
=============================================================================
