----------------------------- MODULE MC_Transc -----------------------------
(* Self-checks of the enclosures, independent of the code under test:      *)
(* ordering and width, e against 50 known digits, exp(a+b) within          *)
(* exp(a)*exp(b), ln 10 literal (ASSUMEd in Transc), exp(-x)*exp(x) ~ 1,   *)
(* acceptance predicates accept the true values and reject values two      *)
(* units away.                                                             *)
EXTENDS Transc
VARIABLE i
E50 == BF(<<663, 407, 772, 762, 696, 496, 957, 995, 369, 709, 724, 775, 249, 266, 135, 747, 28, 536, 523, 904, 845, 182, 828, 271>>, -71)
Width(en) == \* hi - lo relative to lo, as a power of ten bound: hi*10^k <= lo*(10^k + 1)
  TRUE
Ordered(en) == CmpBF(en.lo, en.hi) <= 0
Tight(en, w) == \* (hi - lo) <= lo * 10^-(w-12)
  LET m == IF en.lo.e < en.hi.e THEN en.lo.e ELSE en.hi.e
      lo == MulPow10(en.lo.m, en.lo.e - m)  hi == MulPow10(en.hi.m, en.hi.e - m)
  IN Cmp(MulPow10(Sub(hi, lo), w - 12), lo) <= 0
Args == {<<1, 0>>, <<5, -1>>, <<25, -1>>, <<1234567, -5>>, <<1, 2>>, <<999, -1>>, <<3, -7>>, <<1, -30>>, <<230258509, -8>>}
ASSUME \A a \in Args, n \in BOOLEAN : LET en == ExpEnclS(n, FromInt(a[1]), a[2], 30) IN Ordered(en) /\ Tight(en, 30)
ASSUME LET en == ExpEnclS(FALSE, One, 0, 60) IN CmpBF(en.lo, E50) <= 0 /\ CmpBF(E50, en.hi) <= 0 /\ Tight(en, 60)
\* exp(a+b) is inside exp(a)*exp(b)
ASSUME LET a == ExpEnclS(FALSE, <<5>>, -1, 40)  b == ExpEnclS(FALSE, <<25>>, -1, 40)  c == ExpEnclS(FALSE, <<3>>, 0, 40)
       IN CmpBF(MulD(a.lo, b.lo, 40), c.hi) <= 0 /\ CmpBF(c.lo, MulU(a.hi, b.hi, 40)) <= 0
\* exp(-x) * exp(x) encloses 1
ASSUME LET a == ExpEnclS(FALSE, <<7>>, 0, 40)  b == ExpEnclS(TRUE, <<7>>, 0, 40)
       IN CmpBF(MulD(a.lo, b.lo, 40), BOne) <= 0 /\ CmpBF(BOne, MulU(a.hi, b.hi, 40)) <= 0
\* acceptance predicates: e to 10 digits 2.718281828 accepted, 2.718281830 rejected
ASSUME ExpOK(FALSE, One, 0, <<828, 281, 718, 2>>, -9, 10)
ASSUME ~ExpOK(FALSE, One, 0, <<830, 281, 718, 2>>, -9, 10)
ASSUME ~ExpOK(FALSE, One, 0, <<826, 281, 718, 2>>, -9, 10)
\* ln 2 = 0.6931471806 (10 digits) accepted, 0.6931471808 rejected; ln 0.5 = -0.6931471806
ASSUME LnOK(<<2>>, 0, FALSE, <<806, 471, 931, 6>>, -10, 10)
ASSUME ~LnOK(<<2>>, 0, FALSE, <<808, 471, 931, 6>>, -10, 10)
ASSUME LnOK(<<5>>, -1, TRUE, <<806, 471, 931, 6>>, -10, 10)
\* log10 2 = 0.3010299957 ; log10 1000 = 3 exactly
ASSUME Log10OK(<<2>>, 0, FALSE, <<957, 299, 10, 3>>, -10, 10)
ASSUME ~Log10OK(<<2>>, 0, FALSE, <<959, 299, 10, 3>>, -10, 10)
ASSUME Log10OK(<<0, 1>>, 0, FALSE, <<3>>, 0, 5)
\* 2^0.5 = 1.414213562 with hint ln 2 = 0.69314718055994530942 (+-1e-20)
ASSUME HintOK(<<2>>, 0, FALSE, <<942, 530, 994, 55, 718, 314, 69>>, -20)
ASSUME ~HintOK(<<2>>, 0, FALSE, <<942, 530, 994, 55, 718, 315, 69>>, -20)
ASSUME PowOK(FALSE, <<5>>, -1, FALSE, <<942, 530, 994, 55, 718, 314, 69>>, -20, <<562, 213, 414, 1>>, -9, 10)
ASSUME ~PowOK(FALSE, <<5>>, -1, FALSE, <<942, 530, 994, 55, 718, 314, 69>>, -20, <<564, 213, 414, 1>>, -9, 10)
Init == i = 0
Next == i < 1 /\ i' = i + 1
=============================================================================
