INIT Init
NEXT Next
CONSTANTS NMax = 250
  ModeFix = TRUE
  RangeFix = TRUE
INVARIANT Refines
CHECK_DEADLOCK FALSE
