------------------------------ MODULE BigNat ------------------------------
(***************************************************************************)
(* Natural numbers of unbounded size for TLC (whose integers are 32 bit).  *)
(* A natural is a little-endian sequence of base-1000 limbs without        *)
(* leading (= trailing in the sequence) zero limbs; zero is <<>>.          *)
(* Everything the decimal specification computes is built from these       *)
(* operators; they are validated against TLC's own integers and against    *)
(* algebraic identities by MC_BigNat.                                      *)
(***************************************************************************)
EXTENDS Integers, Sequences, TLC
LOCAL INSTANCE SequencesExt
LOCAL INSTANCE Functions

B == 1000
BMax(x, y) == IF x > y THEN x ELSE y
BMin(x, y) == IF x < y THEN x ELSE y
Limb(a, i) == IF i >= 1 /\ i <= Len(a) THEN a[i] ELSE 0
IsZero(a) == a = <<>>
One == <<1>>

RECURSIVE TopNZ(_, _)
TopNZ(s, n) == IF n = 0 THEN 0 ELSE IF s[n] # 0 THEN n ELSE TopNZ(s, n - 1)
Norm(s) == LET n == TopNZ(s, Len(s)) IN IF n = Len(s) THEN s ELSE SubSeq(s, 1, n)

\* well-formedness of a limb sequence (used on values read from traces)
IsNat(a) == /\ \A i \in 1..Len(a) : a[i] \in 0..(B - 1)
            /\ (Len(a) > 0 => a[Len(a)] # 0)

FromSmall(c) == IF c = 0 THEN <<>>
                ELSE IF c < B THEN <<c>>
                ELSE IF c < B * B THEN <<c % B, c \div B>>
                ELSE <<c % B, (c \div B) % B, c \div (B * B)>>

\* carry-normalise a sequence of non-negative ints (each < 2^31 - 2^21)
RECURSIVE CarryR(_, _, _, _)
CarryR(s, i, c, acc) ==
  IF i > Len(s) THEN (IF c = 0 THEN acc ELSE acc \o FromSmall(c))
  ELSE LET v == s[i] + c IN CarryR(s, i + 1, v \div B, Append(acc, v % B))
Carry(s) == Norm(CarryR(s, 1, 0, <<>>))

Add(a, b) == IF a = <<>> THEN b ELSE IF b = <<>> THEN a
             ELSE Carry([i \in 1..BMax(Len(a), Len(b)) |-> Limb(a, i) + Limb(b, i)])

RECURSIVE SubR(_, _, _, _, _)
SubR(a, b, i, br, acc) ==
  IF i > Len(a) THEN Norm(acc)
  ELSE LET s == a[i] - Limb(b, i) - br IN
       IF s < 0 THEN SubR(a, b, i + 1, 1, Append(acc, s + B))
       ELSE SubR(a, b, i + 1, 0, Append(acc, s))
Sub(a, b) == IF b = <<>> THEN a ELSE SubR(a, b, 1, 0, <<>>)      \* requires a >= b

RECURSIVE CmpR(_, _, _)
CmpR(a, b, i) == IF i = 0 THEN 0
                 ELSE IF a[i] < b[i] THEN -1
                 ELSE IF a[i] > b[i] THEN 1 ELSE CmpR(a, b, i - 1)
Cmp(a, b) == IF Len(a) < Len(b) THEN -1
             ELSE IF Len(a) > Len(b) THEN 1 ELSE CmpR(a, b, Len(a))

MulSmall(a, m) == IF m = 0 \/ a = <<>> THEN <<>>
                  ELSE IF m = 1 THEN a
                  ELSE Carry([i \in 1..Len(a) |-> a[i] * m])       \* m < 2*10^6

RECURSIVE ColSum(_, _, _, _, _)
ColSum(a, b, k, i, hi) == IF i > hi THEN 0 ELSE a[i] * b[k + 1 - i] + ColSum(a, b, k, i + 1, hi)
\* column sums stay below 2^31 for operands of up to ~2000 limbs (6000 digits)
Mul(a, b) == IF a = <<>> \/ b = <<>> THEN <<>>
             ELSE IF Len(b) = 1 THEN MulSmall(a, b[1])
             ELSE IF Len(a) = 1 THEN MulSmall(b, a[1])
             ELSE Carry([k \in 1..(Len(a) + Len(b) - 1) |->
                          ColSum(a, b, k, BMax(1, k + 1 - Len(b)), BMin(k, Len(a)))])

ShiftLimbs(a, k) == IF a = <<>> \/ k = 0 THEN a
                    ELSE [i \in 1..(Len(a) + k) |-> IF i <= k THEN 0 ELSE a[i - k]]

\* division by a small m (0 < m < 2*10^6): <<quotient, remainder-as-int>>
RECURSIVE DivSmallR(_, _, _, _, _)
DivSmallR(a, m, i, r, q) == IF i = 0 THEN <<Norm(q), r>>
                            ELSE LET v == r * B + a[i] IN DivSmallR(a, m, i - 1, v % m, <<v \div m>> \o q)
DivSmall(a, m) == DivSmallR(a, m, Len(a), 0, <<>>)

\* Knuth D with a normalised divisor: the estimate from the two top limbs is
\* at most 2 too large, Fix corrects it.
RECURSIVE Fix(_, _, _)
Fix(r, b, q) == LET p == MulSmall(b, q) IN IF Cmp(p, r) > 0 THEN Fix(r, b, q - 1) ELSE <<q, Sub(r, p)>>
QStep(r, b) == IF Cmp(r, b) < 0 THEN <<0, r>>
               ELSE LET n == Len(b)
                        rtop == IF Len(r) > n THEN r[n + 1] * B + r[n] ELSE r[n]
                        qh == BMin(B - 1, rtop \div b[n])
                    IN Fix(r, b, qh)
RECURSIVE DivR(_, _, _, _, _)
DivR(a, b, i, r, q) == IF i = 0 THEN <<Norm(q), r>>
                       ELSE LET st == QStep(Norm(<<a[i]>> \o r), b)
                            IN DivR(a, b, i - 1, st[2], <<st[1]>> \o q)
\* <<a div b, a mod b>>, b # 0
DivMod(a, b) ==
  IF Cmp(a, b) < 0 THEN <<<<>>, a>>
  ELSE IF Len(b) = 1 THEN LET qs == DivSmall(a, b[1]) IN <<qs[1], FromSmall(qs[2])>>
  ELSE LET d == B \div (b[Len(b)] + 1)
           an == MulSmall(a, d)
           bn == MulSmall(b, d)
           qr == DivR(an, bn, Len(an), <<>>, <<>>)
       IN <<qr[1], IF d = 1 THEN qr[2] ELSE DivSmall(qr[2], d)[1]>>

RECURSIVE FromInt(_)
FromInt(n) == IF n = 0 THEN <<>> ELSE <<n % B>> \o FromInt(n \div B)
\* only for values known to be small (tests)
RECURSIVE ToInt(_)
ToInt(a) == IF a = <<>> THEN 0 ELSE a[1] + B * ToInt(Tail(a))

P10(k) == IF k = 0 THEN 1 ELSE IF k = 1 THEN 10 ELSE 100
MulPow10(a, k) == IF a = <<>> \/ k = 0 THEN a ELSE ShiftLimbs(MulSmall(a, P10(k % 3)), k \div 3)
Pow10(k) == MulPow10(One, k)
DigitsSmall(n) == IF n < 10 THEN 1 ELSE IF n < 100 THEN 2 ELSE 3
\* number of decimal digits; like apd, zero has one digit
NumDigits(a) == IF a = <<>> THEN 1 ELSE 3 * (Len(a) - 1) + DigitsSmall(a[Len(a)])
IsOdd(a) == a # <<>> /\ a[1] % 2 = 1
LastDigit(a) == IF a = <<>> THEN 0 ELSE a[1] % 10

\* a div 10^k and whether a mod 10^k # 0  (k >= 0)
RECURSIVE AnyNZ(_, _)
AnyNZ(a, t) == IF t = 0 THEN FALSE ELSE IF a[t] # 0 THEN TRUE ELSE AnyNZ(a, t - 1)
DropDigits(a, k) ==
  LET t == k \div 3
      sd == k % 3
  IN IF t >= Len(a) THEN <<<<>>, a # <<>>>>
     ELSE LET hi == SubSeq(a, t + 1, Len(a))
              st1 == AnyNZ(a, t)
              qs == IF sd = 0 THEN <<hi, 0>> ELSE DivSmall(hi, P10(sd))
          IN <<qs[1], st1 \/ qs[2] # 0>>
\* a mod 10^k
ModPow10(a, k) ==
  LET t == k \div 3
      sd == k % 3
  IN IF t >= Len(a) THEN a
     ELSE LET low == SubSeq(a, 1, t)
              top == IF sd = 0 THEN 0 ELSE a[t + 1] % P10(sd)
          IN Norm(IF sd = 0 THEN low ELSE Append(low, top))

\* number of trailing decimal zeros of a # 0
RECURSIVE TZLimbs(_, _)
TZLimbs(a, i) == IF a[i] # 0 THEN i - 1 ELSE TZLimbs(a, i + 1)
TrailingZeros(a) == IF a = <<>> THEN 0
                    ELSE LET t == TZLimbs(a, 1)
                             v == a[t + 1]
                         IN 3 * t + (IF v % 10 # 0 THEN 0 ELSE IF v % 100 # 0 THEN 1 ELSE 2)

\* a^n for small n
RECURSIVE PowNat(_, _)
PowNat(a, n) == IF n = 0 THEN One
                ELSE IF n % 2 = 0 THEN LET h == PowNat(a, n \div 2) IN Mul(h, h)
                ELSE Mul(a, PowNat(a, n - 1))
=============================================================================
