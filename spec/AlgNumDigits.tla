---------------------------- MODULE AlgNumDigits ----------------------------
(***************************************************************************)
(* Layer 2: transcription of table.go NumDigits (the digitsLookupTable     *)
(* built by init(), the "next bit length has the same digit count"         *)
(* shortcut, the border comparison, and the float estimate beyond 128      *)
(* bits).  MC_AlgNumDigits checks  NumDigitsAlg(b) = BigNat!NumDigits(b)   *)
(* on every b < 2^13 and around every power of two and of ten up to 10^60; *)
(* pinned variants (border comparison dropped from the shortcut-less       *)
(* entries; `>` for `>=` beyond the table) must be rejected.               *)
(* floor(bl / log2(10)) is modelled as floor(bl * 30103 / 100000); the two *)
(* agree for every bl <= 7000 (checked exhaustively off-line, DESIGN 12.7).*)
(***************************************************************************)
EXTENDS BigNat

RECURSIVE BitLen(_)
BitLen(a) == IF a = <<>> THEN 0 ELSE 1 + BitLen(DivSmall(a, 2)[1])
RECURSIVE Pow2(_)
Pow2(k) == IF k = 0 THEN One ELSE MulSmall(Pow2(k - 1), 2)

TableSize == 128
\* init(): elem.digits = len(String(2^(i-1))), elem.border = 10^digits
TabDigits(i) == NumDigits(Pow2(i - 1))
TabBorder(i) == Pow10(TabDigits(i))

\* shortcut = FALSE: the "bl+1 maps to the same digit count" fast path is taken for EVERY table entry
\* geq = FALSE: beyond the table the estimate is bumped only when |b| > 10^n
NumDigitsAlgP(b, shortcutOK, geq) ==
  LET bl == BitLen(b) IN
  IF bl = 0 THEN 1
  ELSE IF bl <= TableSize THEN
       LET dg == TabDigits(bl) IN
       IF (bl < TableSize /\ TabDigits(bl + 1) = dg) \/ ~shortcutOK THEN dg
       ELSE IF Cmp(b, TabBorder(bl)) < 0 THEN dg ELSE dg + 1
  ELSE LET n == (bl * 30103) \div 100000
           c == Cmp(b, Pow10(n))
       IN IF (IF geq THEN c >= 0 ELSE c > 0) THEN n + 1 ELSE n
NumDigitsAlg(b) == NumDigitsAlgP(b, TRUE, TRUE)
=============================================================================
