------------------------------- MODULE Arith -------------------------------
(***************************************************************************)
(* Layer 1: what each Context operation must return (General Decimal       *)
(* Arithmetic as restated by properties C01 C02 C07 C08 C09 C10 C19).      *)
(* Spec_<Op>(ctx, x, y) is the admissible outcome:                         *)
(*   [k, n, na, c, e, fl]  k: "nan" | "inf" | "fin" | "skip"               *)
(*     n sign, na: sign unconstrained (freshly generated NaN, DESIGN 3.4-9)*)
(*     c,e : value (compared numerically), fl: the decided condition bits  *)
(* "skip" = the properties do not constrain this call (DESIGN 3.4).        *)
(* Anchors: context.go add/Mul/Quo/quoSpecials/QuoInteger/Rem/Quantize/    *)
(*          quantize/toIntegral*/Ceil/Floor/Reduce, decimal.go upscale.    *)
(***************************************************************************)
EXTENDS Round

NaNOut(neg, anysign, fl) == [k |-> "nan", n |-> neg, na |-> anysign, c |-> <<>>, e |-> 0, fl |-> fl]
InfOut(neg, fl)          == [k |-> "inf", n |-> neg, na |-> FALSE, c |-> <<>>, e |-> 0, fl |-> fl]
FinOut(neg, c, e, fl)    == [k |-> "fin", n |-> neg, na |-> FALSE, c |-> c, e |-> e, fl |-> fl]
Skip                     == [k |-> "skip", n |-> FALSE, na |-> TRUE, c |-> <<>>, e |-> 0, fl |-> 0]

FromRound(r) ==
  IF r.kind = "inf" THEN InfOut(r.n, F_OVF + F_INEXACT)
  ELSE FinOut(r.n, r.c, r.e,
              (IF r.inexact THEN F_INEXACT ELSE 0) + (IF r.subnormal THEN F_SUBN ELSE 0)
            + (IF r.inexact /\ r.subnormal THEN F_UNF ELSE 0))

\* the exact value +-(N/D)*10^e delivered through the context's rounding.
\* Precision 0 disables rounding: the exact value, claimed only while its adjusted
\* exponent is inside the context's range (DESIGN 3.4-5).
Rnd(ctx, neg, N, D, e) ==
  IF ctx.p > 0 THEN FromRound(RoundOnce(ctx, neg, N, D, e))
  ELSE IF D # One THEN Skip
  ELSE IF IsZero(N) THEN FinOut(neg, <<>>, 0, 0)
  ELSE LET adj == e + NumDigits(N) - 1 IN
       IF adj > ctx.emax \/ adj < ctx.emin THEN Skip ELSE FinOut(neg, N, e, 0)

\* NaN prologue (C08): first sNaN, else first NaN; sNaN => quiet + InvalidOperation; sign kept
HasNaN(x, y, unary) == IsNaNForm(x) \/ (~unary /\ IsNaNForm(y))
NaNPro(x, y, unary) ==
  IF x.f = SNAN THEN NaNOut(x.n, FALSE, F_INVALID)
  ELSE IF ~unary /\ y.f = SNAN THEN NaNOut(y.n, FALSE, F_INVALID)
  ELSE IF x.f = QNAN THEN NaNOut(x.n, FALSE, 0)
  ELSE NaNOut(y.n, FALSE, 0)

MinE(x, y) == IF x.e < y.e THEN x.e ELSE y.e
AlX(x, y) == MulPow10(x.c, x.e - MinE(x, y))
AlY(x, y) == MulPow10(y.c, y.e - MinE(x, y))

Spec_AddSub(ctx, x, y, sub) ==
  LET yn == IF sub THEN ~y.n ELSE y.n IN
  IF IsInf(x) \/ IsInf(y) THEN
     IF IsInf(x) /\ IsInf(y) /\ x.n # yn THEN NaNOut(FALSE, TRUE, F_INVALID)
     ELSE IF IsInf(x) THEN InfOut(x.n, 0) ELSE InfOut(yn, 0)
  ELSE LET a == AlX(x, y)  b == AlY(x, y)  m == MinE(x, y)  cmp == Cmp(a, b) IN
       IF x.n = yn THEN Rnd(ctx, x.n, Add(a, b), One, m)
       ELSE IF cmp = 0 THEN Rnd(ctx, ctx.r = "floor", <<>>, One, m)     \* exact-zero sum: +0, -0 under floor
       ELSE IF cmp > 0 THEN Rnd(ctx, x.n, Sub(a, b), One, m)
       ELSE Rnd(ctx, yn, Sub(b, a), One, m)

Spec_Mul(ctx, x, y) ==
  LET neg == x.n # y.n IN
  IF IsInf(x) \/ IsInf(y) THEN
     (IF ZeroD(x) \/ ZeroD(y) THEN NaNOut(FALSE, TRUE, F_INVALID) ELSE InfOut(neg, 0))
  ELSE Rnd(ctx, neg, Mul(x.c, y.c), One, x.e + y.e)

\* specials shared by Quo / QuoInteger: <<decided?, outcome>>
DivSpecials(x, y) ==
  LET neg == x.n # y.n IN
  IF IsInf(x) /\ IsInf(y) THEN <<TRUE, NaNOut(FALSE, TRUE, F_INVALID)>>
  ELSE IF IsInf(x) THEN <<TRUE, InfOut(neg, 0)>>
  ELSE IF IsInf(y) THEN <<TRUE, FinOut(neg, <<>>, 0, 0)>>
  ELSE IF ZeroD(y) THEN
       (IF ZeroD(x) THEN <<TRUE, NaNOut(FALSE, TRUE, F_DIVUNDEF)>> ELSE <<TRUE, InfOut(neg, F_DIVZERO)>>)
  ELSE <<FALSE, Skip>>

Spec_Quo(ctx, x, y) ==
  LET sp == DivSpecials(x, y) IN
  IF sp[1] THEN sp[2]
  ELSE IF ctx.p = 0 THEN Skip
  ELSE Rnd(ctx, x.n # y.n, x.c, y.c, x.e - y.e)

Spec_QuoInt(ctx, x, y) ==
  LET sp == DivSpecials(x, y) IN
  IF sp[1] THEN sp[2]
  ELSE IF ctx.p = 0 THEN Skip
  ELSE LET q == DivMod(AlX(x, y), AlY(x, y))[1] IN
       IF ~IsZero(q) /\ NumDigits(q) > ctx.p THEN NaNOut(FALSE, TRUE, F_DIVIMP)
       ELSE FinOut(x.n # y.n, q, 0, 0)

Spec_Rem(ctx, x, y) ==
  IF IsInf(x) THEN NaNOut(FALSE, TRUE, F_INVALID)
  ELSE IF IsInf(y) THEN Rnd(ctx, x.n, x.c, One, x.e)                   \* x rem Inf = x (rounded to the context)
  ELSE IF ZeroD(y) THEN (IF ZeroD(x) THEN NaNOut(FALSE, TRUE, F_DIVUNDEF) ELSE NaNOut(FALSE, TRUE, F_INVALID))
  ELSE IF ctx.p = 0 THEN Skip
  ELSE LET qr == DivMod(AlX(x, y), AlY(x, y)) IN
       IF ~IsZero(qr[1]) /\ NumDigits(qr[1]) > ctx.p THEN NaNOut(FALSE, TRUE, F_DIVIMP)
       ELSE Rnd(ctx, x.n, qr[2], One, MinE(x, y))

\* Abs / Neg / Round (GDA abs, minus, plus): the operand with sign neg, rounded
Spec_Unary(ctx, x, neg) ==
  IF IsInf(x) THEN InfOut(neg, 0) ELSE Rnd(ctx, neg, x.c, One, x.e)

\* integer rounding of X*10^(ex-q) in the context's mode, for every magnitude
Spec_Quantize(ctx, x, q) ==
  IF ctx.p = 0 THEN Skip
  ELSE IF IsInf(x) \/ q < Etiny(ctx) \/ q > ctx.emax THEN NaNOut(FALSE, TRUE, F_INVALID)
  ELSE LET r == RoundAt(ctx.r, x.n, x.c, One, x.e, q) IN
       IF ~IsZero(r.c) /\ (NumDigits(r.c) > ctx.p \/ q + NumDigits(r.c) - 1 > ctx.emax)
       THEN NaNOut(FALSE, TRUE, F_INVALID)
       ELSE FinOut(x.n, r.c, q, IF r.inexact THEN F_INEXACT ELSE 0)

\* RoundToIntegralExact / Value: quantize to exponent 0 without the digit limit;
\* claimed while the integer's adjusted exponent stays <= emax (C09 quantifier)
Spec_ToInt(ctx, x) ==
  IF IsInf(x) THEN InfOut(x.n, 0)
  ELSE LET r == RoundAt(ctx.r, x.n, x.c, One, x.e, 0) IN
       IF ~IsZero(r.c) /\ NumDigits(r.c) - 1 > ctx.emax THEN Skip
       ELSE FinOut(x.n, r.c, 0, IF r.inexact THEN F_INEXACT ELSE 0)

\* Ceil / Floor: least / greatest integer; judged where the integer has at most p digits
Spec_CeilFloor(ctx, x, ceil) ==
  IF IsInf(x) THEN InfOut(x.n, 0)
  ELSE LET r == RoundAt(IF ceil THEN "ceiling" ELSE "floor", x.n, x.c, One, x.e, 0) IN
       IF ctx.p = 0 \/ NumDigits(r.c) > ctx.p \/ NumDigits(r.c) - 1 > ctx.emax THEN Skip
       ELSE FinOut(x.n, r.c, 0, 0)

Spec_Cmp(ctx, x, y) ==
  LET v == CmpSpec(x, y) IN FinOut(v < 0, IF v = 0 THEN <<>> ELSE One, 0, 0)


\* ---- special-value prologues of the root / transcendental functions (C08) ----
\* For finite, non-special arguments the verdict comes from Roots / Transc; here: Skip.
IsIntD(y) == y.f = FIN /\ (y.e >= 0 \/ IsZero(ModPow10(y.c, -y.e)))
IsOddIntD(y) == IsIntD(y) /\ (IF y.e > 0 THEN FALSE ELSE IsOdd(DropDigits(y.c, -y.e)[1]))

Special_Sqrt(x) ==
  IF IsInf(x) THEN (IF x.n THEN NaNOut(FALSE, TRUE, F_INVALID) ELSE InfOut(FALSE, 0))
  ELSE IF ZeroD(x) THEN FinOut(x.n, <<>>, 0, 0)
  ELSE IF x.n THEN NaNOut(FALSE, TRUE, F_INVALID)
  ELSE Skip
Special_Cbrt(x) ==
  IF IsInf(x) THEN (IF x.n THEN Skip ELSE InfOut(FALSE, 0))          \* Cbrt(-Inf): not defined by GDA (DESIGN 3.4-7)
  ELSE IF ZeroD(x) THEN FinOut(x.n, <<>>, 0, 0)
  ELSE Skip
Special_Exp(x) ==
  IF IsInf(x) THEN (IF x.n THEN FinOut(FALSE, <<>>, 0, 0) ELSE InfOut(FALSE, 0))
  ELSE IF ZeroD(x) THEN FinOut(FALSE, One, 0, 0)
  ELSE Skip
Special_Log(x) ==           \* Ln and Log10
  IF ZeroD(x) THEN InfOut(TRUE, 0)
  ELSE IF x.n THEN NaNOut(FALSE, TRUE, F_INVALID)
  ELSE IF IsInf(x) THEN InfOut(FALSE, 0)
  ELSE IF CmpMag(x.c, x.e, One, 0) = 0 THEN FinOut(FALSE, <<>>, 0, 0)
  ELSE Skip
\* the GDA power table
Special_Pow(x, y) ==
  LET oddneg == x.n /\ IsOddIntD(y) IN
  IF ZeroD(y) THEN (IF ZeroD(x) THEN NaNOut(FALSE, TRUE, F_INVALID) ELSE FinOut(FALSE, One, 0, 0))
  ELSE IF IsInf(x) THEN
       (IF x.n /\ ~IsIntD(y) THEN NaNOut(FALSE, TRUE, F_INVALID)
        ELSE IF y.n THEN FinOut(oddneg, <<>>, 0, 0) ELSE InfOut(oddneg, 0))
  ELSE IF ZeroD(x) THEN
       (IF IsInf(y) THEN (IF y.n THEN InfOut(FALSE, 0) ELSE FinOut(FALSE, <<>>, 0, 0))
        ELSE IF x.n /\ ~IsIntD(y) THEN Skip
        ELSE IF y.n THEN InfOut(oddneg, 0) ELSE FinOut(oddneg, <<>>, 0, 0))
  ELSE IF IsInf(y) THEN
       (IF x.n THEN NaNOut(FALSE, TRUE, F_INVALID)
        ELSE LET m == CmpMag(x.c, x.e, One, 0) IN
             IF m = 0 THEN FinOut(FALSE, One, 0, 0)
             ELSE IF (m > 0) = ~y.n THEN InfOut(FALSE, 0) ELSE FinOut(FALSE, <<>>, 0, 0))
  ELSE IF x.n /\ ~IsIntD(y) THEN NaNOut(FALSE, TRUE, F_INVALID)
  ELSE Skip

UnaryOps == {"abs", "neg", "round", "quantize", "tointx", "tointv", "ceil", "floor", "reduce",
             "sqrt", "cbrt", "exp", "ln", "log10"}

\* The admissible outcome of one Context call
Want(op, ctx, x, y, q) ==
  IF HasNaN(x, y, op \in UnaryOps) THEN NaNPro(x, y, op \in UnaryOps)
  ELSE CASE op = "add" -> Spec_AddSub(ctx, x, y, FALSE)
         [] op = "sub" -> Spec_AddSub(ctx, x, y, TRUE)
         [] op = "mul" -> Spec_Mul(ctx, x, y)
         [] op = "quo" -> Spec_Quo(ctx, x, y)
         [] op = "quoint" -> Spec_QuoInt(ctx, x, y)
         [] op = "rem" -> Spec_Rem(ctx, x, y)
         [] op = "abs" -> Spec_Unary(ctx, x, FALSE)
         \* Decimal.Neg documents -0 -> 0; GDA minus(+0) is -0 under floor: both admitted (DESIGN 3.4-7)
         [] op = "neg" -> IF ZeroD(x) THEN (IF ctx.r = "floor" /\ ~x.n THEN Skip ELSE Spec_Unary(ctx, x, FALSE))
                          ELSE Spec_Unary(ctx, x, ~x.n)
         [] op = "round" -> Spec_Unary(ctx, x, x.n)
         [] op = "reduce" -> Spec_Unary(ctx, x, x.n)
         [] op = "quantize" -> Spec_Quantize(ctx, x, q)
         [] op = "tointx" -> Spec_ToInt(ctx, x)
         [] op = "tointv" -> Spec_ToInt(ctx, x)
         [] op = "ceil" -> Spec_CeilFloor(ctx, x, TRUE)
         [] op = "floor" -> Spec_CeilFloor(ctx, x, FALSE)
         [] op = "cmp" -> Spec_Cmp(ctx, x, y)
         [] op = "sqrt" -> Special_Sqrt(x)
         [] op = "cbrt" -> Special_Cbrt(x)
         [] op = "exp" -> Special_Exp(x)
         [] op \in {"ln", "log10"} -> Special_Log(x)
         [] op = "pow" -> Special_Pow(x, y)
         [] OTHER -> Skip

\* ------------------------------------------------------------------------
\* Acceptance of an observed outcome  got = [f, n, c, e, cs], fl
\* ------------------------------------------------------------------------
ValueOK(w, got) ==
  CASE w.k = "skip" -> TRUE
    [] w.k = "nan"  -> got.f = QNAN /\ (w.na \/ got.n = w.n)
    [] w.k = "inf"  -> got.f = INF /\ got.n = w.n
    [] OTHER        -> got.f = FIN /\ got.n = w.n /\ NumEq(got.c, got.e, w.c, w.e)

\* the condition bits an exact result decides (C02); Rounded / Clamped only by implication
Decided == {F_OVF, F_UNF, F_INEXACT, F_SUBN, F_DIVUNDEF, F_DIVZERO, F_DIVIMP, F_INVALID}
FlagsOK(op, w, got, fl) ==
  LET dec == CASE op = "quantize" -> Decided \ {F_SUBN}          \* DESIGN 3.4-10
               [] op \in {"tointx", "tointv"} -> Decided \ {F_SUBN, F_UNF}
               [] op \in {"ceil", "floor"} -> {F_DIVUNDEF, F_DIVZERO, F_DIVIMP}
               [] op = "pow" -> {F_DIVUNDEF, F_DIVZERO, F_DIVIMP, F_INVALID}       \* 1**Inf is Inexact in GDA: not decided here
               [] OTHER -> Decided
      wfl == IF op = "tointv" /\ Bit(w.fl, F_INEXACT) THEN w.fl - F_INEXACT ELSE w.fl
  IN /\ w.k # "skip" => \A b \in dec : Bit(fl, b) = Bit(wfl, b)
     /\ (op = "tointv" => ~Bit(fl, F_ROUNDED) /\ ~Bit(fl, F_INEXACT))
\* the implications C02 states between conditions
FlagImpRangeOK(fl) ==
     /\ Bit(fl, F_OVF) => Bit(fl, F_INEXACT)
     /\ Bit(fl, F_UNF) => (Bit(fl, F_SUBN) /\ Bit(fl, F_INEXACT))
FlagImpOK(got, fl) ==
     /\ (got.f = FIN /\ Bit(fl, F_INEXACT)) => Bit(fl, F_ROUNDED)
     /\ FlagImpRangeOK(fl)

\* C07: a finite result fits the context
Fits(ctx, got) ==
  got.f = FIN =>
    /\ (ctx.p > 0 => NumDigits(got.c) <= ctx.p)
    /\ got.e + NumDigits(got.c) - 1 <= ctx.emax
    /\ (~IsZero(got.c) /\ ctx.p > 0 => got.e >= Etiny(ctx))
=============================================================================
