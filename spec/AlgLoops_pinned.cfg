SPECIFICATION Spec
CONSTANTS Cap = 4
  MaxIter = 3
  CheckErr = FALSE
INVARIANT TypeOK
PROPERTY Returns
CHECK_DEADLOCK FALSE
