INIT Init
NEXT Next
CONSTANT MinLen = 5
INVARIANT Export
CHECK_DEADLOCK FALSE
