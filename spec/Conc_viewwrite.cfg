SPECIFICATION Spec
CONSTANTS Procs = {1, 2}
  AllowViewWrite = TRUE
INVARIANTS SharedUnchanged SameAsAlone
PROPERTY OwnDestinationOnly
CHECK_DEADLOCK FALSE
