INIT Init
NEXT Next
CONSTANTS U = 4
  W = 4
  MaxV = 60
  Buggy = TRUE
CONSTRAINT Bound
INVARIANTS LikeMathBig ZeroNotNegative InlineFits
CHECK_DEADLOCK FALSE
