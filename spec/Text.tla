-------------------------------- MODULE Text --------------------------------
(***************************************************************************)
(* C13 / C14: the text forms of a Decimal.  A string is a sequence of      *)
(* code points (integers).                                                 *)
(*   ToSci(d)      : GDA to-scientific-string, with apd's documented       *)
(*                   exception (a zero with exponent in [-2000,-1] is      *)
(*                   written in plain notation)                            *)
(*   TextOf(d, v)  : Decimal.Text(v) for v in G g E e f                    *)
(*   ParseSpec(s)  : the GDA numeric-string grammar -> a Decimal or reject *)
(*   FmtPad        : fmt's flag and width handling for numbers             *)
(* Anchors: format.go (Append, fmtE, fmtF, Format), decimal.go (setString, *)
(*          SetString, NewFromString, UnmarshalText, Scan).                *)
(***************************************************************************)
EXTENDS DecBase
LOCAL INSTANCE SequencesExt

Ch(s) == CASE s = "0" -> 48 [] s = "." -> 46 [] s = "-" -> 45 [] s = "+" -> 43 [] s = "E" -> 69 [] s = "e" -> 101
           [] s = " " -> 32 [] OTHER -> 63
Str(s) == CASE s = "NaN" -> <<78, 97, 78>> [] s = "sNaN" -> <<115, 78, 97, 78>>
            [] s = "Infinity" -> <<73, 110, 102, 105, 110, 105, 116, 121>>
            [] s = "inf" -> <<105, 110, 102>> [] s = "infinity" -> <<105, 110, 102, 105, 110, 105, 116, 121>>
            [] s = "nan" -> <<110, 97, 110>> [] s = "snan" -> <<115, 110, 97, 110>>
            [] OTHER -> <<>>
Rep(ch, n) == [i \in 1..n |-> ch]
IsDigit(ch) == ch \in 48..57
AllDigits(s) == \A i \in 1..Len(s) : IsDigit(s[i])
Lower(ch) == IF ch \in 65..90 THEN ch + 32 ELSE ch                 \* ASCII only
LowerS(s) == [i \in 1..Len(s) |-> Lower(s[i])]

\* decimal digits of a small natural, most significant first
RECURSIVE IntDigits(_)
IntDigits(n) == IF n < 10 THEN <<48 + n>> ELSE Append(IntDigits(n \div 10), 48 + (n % 10))
Limb3(v) == <<48 + (v \div 100), 48 + ((v \div 10) % 10), 48 + (v % 10)>>
\* digits of a BigNat (zero is "0")
RECURSIVE LimbDigits(_, _)
LimbDigits(a, i) == IF i = 0 THEN <<>> ELSE Limb3(a[i]) \o LimbDigits(a, i - 1)
DigitsOf(a) == IF a = <<>> THEN <<48>> ELSE IntDigits(a[Len(a)]) \o LimbDigits(a, Len(a) - 1)

\* ---------------- formatting ----------------
SciBody(digs, e, E) ==          \* d.ddddE+x
  LET adj == e + Len(digs) - 1 IN
  <<digs[1]>> \o (IF Len(digs) > 1 THEN <<46>> \o Tail(digs) ELSE <<>>)
  \o <<E>> \o <<IF adj < 0 THEN 45 ELSE 43>> \o IntDigits(Abs(adj))
PlainBody(digs, e) ==
  IF e >= 0 THEN digs \o Rep(48, e)
  ELSE LET left == -e - Len(digs) IN
       IF left >= 0 THEN <<48, 46>> \o Rep(48, left) \o digs
       ELSE SubSeq(digs, 1, -left) \o <<46>> \o SubSeq(digs, -left + 1, Len(digs))
SignOf(d) == IF d.n THEN <<45>> ELSE <<>>
\* verb: 71 'G', 103 'g', 69 'E', 101 'e', 102 'f'
TextOf(d, verb) ==
  SignOf(d) \o
  (CASE d.f = QNAN -> Str("NaN") [] d.f = SNAN -> Str("sNaN") [] d.f = INF -> Str("Infinity")
     [] OTHER ->
        LET digs == DigitsOf(d.c)
            E == IF verb \in {71, 69} THEN 69 ELSE 101
        IN CASE verb \in {69, 101} -> SciBody(digs, d.e, E)
             [] verb = 102 -> PlainBody(digs, d.e)
             [] OTHER ->                                  \* G g : to-scientific-string
                LET zeroPlain == IsZero(d.c) /\ d.e >= -2000 /\ d.e < 0       \* documented exception
                    adj == d.e + Len(digs) - 1
                IN IF zeroPlain \/ (d.e <= 0 /\ adj >= -6) THEN PlainBody(digs, d.e) ELSE SciBody(digs, d.e, E))
ToSci(d) == TextOf(d, 71)

\* fmt's flags for numbers: flags is a set of code points among {43 '+', 32 ' ', 45 '-', 48 '0'}; width < 0: none
FmtPad(d, flags, width, text) ==
  LET neg  == Len(text) > 0 /\ text[1] = 45
      body == IF neg THEN Tail(text) ELSE text
      sign == IF neg THEN <<45>> ELSE IF 43 \in flags THEN <<43>> ELSE IF 32 \in flags THEN <<32>> ELSE <<>>
      pad  == IF width > Len(sign) + Len(body) THEN width - Len(sign) - Len(body) ELSE 0
  IN IF 45 \in flags THEN sign \o body \o Rep(32, pad)                       \* '-' overrides '0'
     ELSE IF 48 \in flags /\ d.f = FIN THEN sign \o Rep(48, pad) \o body
     ELSE Rep(32, pad) \o sign \o body

\* ---------------- parsing ----------------
Reject == [ok |-> FALSE]
Accept(f, n, c, e, big) == [ok |-> TRUE, f |-> f, n |-> n, c |-> c, e |-> e, big |-> big, xe |-> 0]
HasPrefix(s, p) == Len(s) >= Len(p) /\ SubSeq(s, 1, Len(p)) = p
Drop(s, k) == SubSeq(s, k + 1, Len(s))
IndexOf(s, ch) == IF \E i \in 1..Len(s) : s[i] = ch THEN CHOOSE i \in 1..Len(s) : s[i] = ch /\ \A j \in 1..(i - 1) : s[j] # ch ELSE 0
\* BigNat of a digit string (leading zeros allowed)
RECURSIVE FromDigitsR(_, _, _)
FromDigitsR(s, i, acc) == IF i > Len(s) THEN acc ELSE FromDigitsR(s, i + 1, Add(MulSmall(acc, 10), FromSmall(s[i] - 48)))
FromDigits(s) == FromDigitsR(s, 1, <<>>)
\* exponent part: [ok, big, v]  (big: more than 7 digits, certainly outside every limit)
ExpPart(s) ==
  LET sg == Len(s) > 0 /\ s[1] \in {43, 45}
      ds == IF sg THEN Tail(s) ELSE s
      nat == FromDigits(ds)
  IN IF Len(ds) = 0 \/ ~AllDigits(ds) THEN [ok |-> FALSE, big |-> FALSE, v |-> 0]
     ELSE IF NumDigits(nat) > 7 THEN [ok |-> TRUE, big |-> TRUE, v |-> IF sg /\ s[1] = 45 THEN -1 ELSE 1]
     ELSE [ok |-> TRUE, big |-> FALSE, v |-> IF sg /\ s[1] = 45 THEN -ToInt(nat) ELSE ToInt(nat)]
ParseSpec(s0) ==
  LET signed == Len(s0) > 0 /\ s0[1] \in {43, 45}
      neg == signed /\ s0[1] = 45
      r == LowerS(IF signed THEN Tail(s0) ELSE s0)
  IN IF r = Str("inf") \/ r = Str("infinity") THEN Accept(INF, neg, <<>>, 0, FALSE)
     ELSE IF HasPrefix(r, Str("nan")) THEN (IF AllDigits(Drop(r, 3)) THEN Accept(QNAN, neg, <<>>, 0, FALSE) ELSE Reject)
     ELSE IF HasPrefix(r, Str("snan")) THEN (IF AllDigits(Drop(r, 4)) THEN Accept(SNAN, neg, <<>>, 0, FALSE) ELSE Reject)
     ELSE LET ie == IndexOf(r, 101)
              mant == IF ie = 0 THEN r ELSE SubSeq(r, 1, ie - 1)
              ex == IF ie = 0 THEN [ok |-> TRUE, big |-> FALSE, v |-> 0] ELSE ExpPart(Drop(r, ie))
              ip == IndexOf(mant, 46)
              ipart == IF ip = 0 THEN mant ELSE SubSeq(mant, 1, ip - 1)
              fpart == IF ip = 0 THEN <<>> ELSE Drop(mant, ip)
              digs == ipart \o fpart
          IN IF ~ex.ok \/ Len(digs) = 0 \/ ~AllDigits(digs) THEN Reject
             ELSE IF ex.big THEN Accept(FIN, neg, FromDigits(digs), ex.v * 10000000, TRUE)
             ELSE [Accept(FIN, neg, FromDigits(digs), ex.v - Len(fpart), FALSE) EXCEPT !.xe = ex.v]
\* ---------------- the same grammar as a deterministic automaton ----------------
\* An independent formulation (state' = Step(state, ch)); MC_Text checks that it accepts
\* exactly the strings ParseSpec accepts.  States: records [s, i] - s the phase, i the
\* position inside a keyword.
KwInf == Str("infinity")
St(s, i) == [s |-> s, i |-> i]
Dead == St("dead", 0)
Step(st, ch0) ==
  LET ch == Lower(ch0) IN
  CASE st.s = "start" -> IF ch0 \in {43, 45} THEN St("signed", 0) ELSE
                         IF IsDigit(ch) THEN St("int", 0) ELSE IF ch = 46 THEN St("dot0", 0)
                         ELSE IF ch = 105 THEN St("inf", 1) ELSE IF ch = 110 THEN St("nan", 1) ELSE IF ch = 115 THEN St("snan", 1) ELSE Dead
    [] st.s = "signed" -> IF IsDigit(ch) THEN St("int", 0) ELSE IF ch = 46 THEN St("dot0", 0)
                         ELSE IF ch = 105 THEN St("inf", 1) ELSE IF ch = 110 THEN St("nan", 1) ELSE IF ch = 115 THEN St("snan", 1) ELSE Dead
    [] st.s = "int"   -> IF IsDigit(ch) THEN st ELSE IF ch = 46 THEN St("frac", 0) ELSE IF ch = 101 THEN St("e", 0) ELSE Dead
    [] st.s = "dot0"  -> IF IsDigit(ch) THEN St("frac", 0) ELSE Dead                     \* "." needs a digit after it
    [] st.s = "frac"  -> IF IsDigit(ch) THEN st ELSE IF ch = 101 THEN St("e", 0) ELSE Dead
    [] st.s = "e"     -> IF ch0 \in {43, 45} THEN St("esign", 0) ELSE IF IsDigit(ch) THEN St("exp", 0) ELSE Dead
    [] st.s = "esign" -> IF IsDigit(ch) THEN St("exp", 0) ELSE Dead
    [] st.s = "exp"   -> IF IsDigit(ch) THEN st ELSE Dead
    [] st.s = "inf"   -> IF st.i < 8 /\ ch = KwInf[st.i + 1] THEN St("inf", st.i + 1) ELSE Dead
    [] st.s = "nan"   -> IF st.i < 3 THEN (IF ch = Str("nan")[st.i + 1] THEN St("nan", st.i + 1) ELSE Dead)
                         ELSE IF IsDigit(ch) THEN st ELSE Dead
    [] st.s = "snan"  -> IF st.i < 4 THEN (IF ch = Str("snan")[st.i + 1] THEN St("snan", st.i + 1) ELSE Dead)
                         ELSE IF IsDigit(ch) THEN st ELSE Dead
    [] OTHER -> Dead
Accepting(st) == \/ st.s \in {"int", "frac", "exp"}
                 \/ (st.s = "inf" /\ st.i \in {3, 8})
                 \/ (st.s = "nan" /\ st.i = 3) \/ (st.s = "snan" /\ st.i = 4)
RECURSIVE RunFrom(_, _, _)
RunFrom(st, s, i) == IF i > Len(s) THEN st ELSE RunFrom(Step(st, s[i]), s, i + 1)
AutomatonAccepts(s) == Accepting(RunFrom(St("start", 0), s, 1))

\* the limits of C14: "inside": must be accepted; "outside": must be rejected; "band": either (DESIGN 3.4-6)
LimitClass(p) ==
  IF p.f # FIN THEN "inside"
  ELSE IF p.big THEN "outside"
  ELSE LET adj == p.e + NumDigits(p.c) - 1 IN
       IF adj > LIMIT \/ adj < -LIMIT THEN "outside"
       ELSE IF p.e > LIMIT \/ p.e < -LIMIT \/ p.xe > LIMIT \/ p.xe < -LIMIT THEN "band"    \* written or resulting exponent
       ELSE "inside"
=============================================================================
