INIT Init
NEXT Next
CONSTANT D = 6
INVARIANT Export
CHECK_DEADLOCK FALSE
