------------------------------- MODULE AlgQuo -------------------------------
(***************************************************************************)
(* Layer 2: implementation-shaped transcription of Context.Quo             *)
(* (context.go) for finite, non-zero divisor: digit alignment, the         *)
(* Precision-digit integer division, Quo's OWN rounding step with the      *)
(* remainder, and the hand-over to setExponent (AlgRound!SetExponentP).    *)
(*   carryfix  = FALSE : before e4dc576 (99..9 + 1 keeps Precision+1 digits)*)
(*   stickyfix = FALSE : before 785f4d3 (remainder dropped when the        *)
(*                       quotient is subnormal)                            *)
(* MC_AlgQuo checks AlgQuo => Spec_Quo; the two pinned variants are        *)
(* negative controls that TLC must reject.                                 *)
(***************************************************************************)
EXTENDS AlgRound

AlgQuoP(ctx, x, y, carryfix, stickyfix) ==
  LET neg == x.n # y.n
      shift == x.e - y.e
  IN IF IsZero(x.c) THEN SetExponentP(ctx, neg, <<>>, shift, {}, TRUE)
     ELSE
     LET ndDiff == NumDigits(x.c) - NumDigits(y.c)
         dvd0 == IF ndDiff < 0 THEN MulPow10(x.c, -ndDiff) ELSE x.c
         dvs == IF ndDiff > 0 THEN MulPow10(y.c, ndDiff) ELSE y.c
         less == Cmp(dvd0, dvs) < 0
         dvd1 == IF less THEN MulPow10(dvd0, 1) ELSE dvd0
         adjCoeffs == -ndDiff + (IF less THEN 1 ELSE 0)
         adjExp10 == ctx.p - 1
         qr == DivMod(MulPow10(dvd1, adjExp10), dvs)
         q == qr[1]  rem == qr[2]
         nd == NumDigits(q)
     IN IF IsZero(rem) THEN SetExponentP(ctx, neg, q, shift - adjCoeffs - adjExp10, {}, TRUE)
        ELSE LET adj == shift - adjCoeffs - adjExp10 + nd - 1 IN
             IF adj >= ctx.emin THEN
                LET half == Cmp(Add(rem, rem), dvs)
                    q1 == IF Inc(ctx.r, neg, q, half, TRUE) THEN Add(q, One) ELSE q
                    grew == NumDigits(q1) > nd
                    q2 == IF grew /\ carryfix THEN DropDigits(q1, 1)[1] ELSE q1
                    a2 == IF grew /\ carryfix THEN adjExp10 - 1 ELSE adjExp10
                IN SetExponentP(ctx, neg, q2, shift - adjCoeffs - a2, {F_INEXACT, F_ROUNDED}, TRUE)
             ELSE IF stickyfix
                  THEN SetExponentP(ctx, neg, Add(MulPow10(q, 1), One), shift - adjCoeffs - (adjExp10 + 1), {}, TRUE)   \* sticky digit
                  ELSE SetExponentP(ctx, neg, q, shift - adjCoeffs - adjExp10, {}, TRUE)
AlgQuo(ctx, x, y) == AlgQuoP(ctx, x, y, TRUE, TRUE)
=============================================================================
