INIT Init
NEXT Next
CONSTANTS SignFix = TRUE
  NMax = 25
INVARIANTS Refines DigitsRemovedRounded
CHECK_DEADLOCK FALSE
