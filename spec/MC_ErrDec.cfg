SPECIFICATION Spec
CONSTANT Traps = {"ovf", "dz"}
INVARIANTS SameAsDirect ErrIffTrapped
PROPERTIES Sticky SkipAfterError FlagsGrow Frame
CHECK_DEADLOCK FALSE
