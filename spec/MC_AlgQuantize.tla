--------------------------- MODULE MC_AlgQuantize ---------------------------
EXTENDS AlgQuantize
CONSTANTS NMax, ModeFix, RangeFix
VARIABLES neg, n, e, q, ctx
vars == <<neg, n, e, q, ctx>>
Ns == (0..NMax) \cup {49, 50, 51, 95, 99, 100, 101, 149, 150, 151, 499, 500, 501, 949, 950, 995, 999, 1000, 1001, 9995, 9999}
Ctxs == {[p |-> p, emin |-> rg[1], emax |-> rg[2], r |-> m, t |-> 0] : p \in {1, 2, 3}, rg \in {<<-2, 3>>, <<0, 3>>}, m \in Modes \cup {""}}
Init == neg \in BOOLEAN /\ n = -1 /\ e \in -4..2 /\ q \in -4..4 /\ ctx \in Ctxs
Next == n = -1 /\ n' \in Ns /\ UNCHANGED <<neg, e, q, ctx>>
X == [f |-> FIN, n |-> neg, c |-> FromInt(IF n < 0 THEN 0 ELSE n), e |-> e]
A == AlgQuantizeP(ctx, X, q, ModeFix, RangeFix)
W == Spec_Quantize(ctx, X, q)
Got == [f |-> A.f, n |-> neg, c |-> A.c, e |-> A.e, cs |-> 1]
FlInt == (IF F_OVF \in A.fl THEN F_OVF ELSE 0) + (IF F_UNF \in A.fl THEN F_UNF ELSE 0) + (IF F_INEXACT \in A.fl THEN F_INEXACT ELSE 0)
       + (IF F_SUBN \in A.fl THEN F_SUBN ELSE 0) + (IF F_ROUNDED \in A.fl THEN F_ROUNDED ELSE 0) + (IF F_CLAMPED \in A.fl THEN F_CLAMPED ELSE 0)
       + (IF F_INVALID \in A.fl THEN F_INVALID ELSE 0)
Refines == n >= 0 =>
   /\ (W.k = "nan" => A.f = QNAN)
   /\ (W.k = "fin" => (A.f = FIN /\ NumEq(A.c, A.e, W.c, W.e) /\ A.e = q))
   /\ FlagsOK("quantize", W, Got, FlInt)
   /\ (A.f = FIN => Fits(ctx, Got))
   /\ F_UNF \notin A.fl /\ F_OVF \notin A.fl
=============================================================================
