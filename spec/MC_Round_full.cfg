INIT Init
NEXT Next
CONSTANTS NMax = 1100
  Ds = {1, 3, 7, 8, 11, 13}
  ELo = 4
  EHi = 3
INVARIANTS Relational FitsThm FlagThm Idem Mono Bracket
CHECK_DEADLOCK FALSE
