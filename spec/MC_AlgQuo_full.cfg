INIT Init
NEXT Next
CONSTANTS NMax = 60
  Bs = {1, 2, 3, 7, 9, 11, 25, 64, 99, 101, 999, 1000, 9995}
  Wide = TRUE
  CarryFix = TRUE
  StickyFix = TRUE
INVARIANT Refines
CHECK_DEADLOCK FALSE
