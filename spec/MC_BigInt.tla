----------------------------- MODULE MC_BigInt -----------------------------
(***************************************************************************)
(* Implementation-shaped model (layer 2) of BigInt's representation        *)
(* machine with a small word: a register is [neg, mag, heap]; values below *)
(* U take the "uint64" fast paths (addInline, mulInline, quoInline,        *)
(* remInline, via updateInnerFromUint64), values below W*W fit the inline  *)
(* array, larger ones are heap-backed; a heap-backed register stays so     *)
(* until a fast path or Abs/Neg/Set rewrites it.                           *)
(* Every action keeps a ghost integer `val`; invariants: the register      *)
(* decodes to the ghost value (behaves like math/big), zero is never       *)
(* negative, inline values fit.  With Buggy = TRUE the sign of a fast-path *)
(* product / quotient / remainder / negation is computed without a zero    *)
(* test - TLC then reports ZeroNotNegative violated (negative control,     *)
(* MC_BigInt_buggy.cfg; the counterexample Mul(0,-x) is what the pinned    *)
(* tree did).                                                              *)
(***************************************************************************)
EXTENDS Integers
CONSTANTS
  \* @type: Int;
  U,
  \* @type: Int;
  W,
  \* @type: Int;
  MaxV,
  \* @type: Bool;
  Buggy
Regs == {1, 2}
VARIABLES
  \* @type: Int -> { neg: Bool, mag: Int, heap: Bool };
  reg,
  \* @type: Int -> Int;
  val
vars == <<reg, val>>
Abs(i) == IF i < 0 THEN -i ELSE i
Enc(v, heap) == [neg |-> v < 0, mag |-> Abs(v), heap |-> heap]
\* @type: ({ neg: Bool, mag: Int, heap: Bool }) => Int;
Dec(r) == IF r.neg THEN -r.mag ELSE r.mag
\* @type: ({ neg: Bool, mag: Int, heap: Bool }) => Bool;
Fast(r) == ~r.heap /\ r.mag < U
InlineCap(m) == m < W * W
Init == /\ val \in [Regs -> {-5, -1, 0, 1, 3, 7}]
        /\ reg = [i \in Regs |-> Enc(val[i], FALSE)]
\* general path: math/big computes in place; the register becomes heap-backed when the value outgrows the inline array
General(z, v) == Enc(v, reg[z].heap \/ ~InlineCap(Abs(v)))
\* fast path result: sign computed by the inline helper
FastRes(mag, neg) == [neg |-> IF Buggy THEN neg ELSE (neg /\ mag # 0), mag |-> mag, heap |-> FALSE]
\* @type: (Int, { neg: Bool, mag: Int, heap: Bool }, Int) => Bool;
Put(z, r, v) == reg' = [reg EXCEPT ![z] = r] /\ val' = [val EXCEPT ![z] = v]
Add(z, x, y) == LET v == val[x] + val[y] IN
  IF Fast(reg[x]) /\ Fast(reg[y]) /\ Abs(v) < U
  THEN Put(z, [neg |-> v < 0, mag |-> Abs(v), heap |-> FALSE], v)          \* addInline tests diff = 0
  ELSE Put(z, General(z, v), v)
Mul(z, x, y) == LET v == val[x] * val[y] IN
  IF Fast(reg[x]) /\ Fast(reg[y]) /\ Abs(v) < U
  THEN Put(z, FastRes(Abs(v), reg[x].neg # reg[y].neg), v)
  ELSE Put(z, General(z, v), v)
TQuo(a, b) == LET q == Abs(a) \div Abs(b) IN IF (a < 0) # (b < 0) THEN -q ELSE q
TRem(a, b) == a - b * TQuo(a, b)
Quo(z, x, y) == val[y] # 0 /\ LET v == TQuo(val[x], val[y]) IN
  IF Fast(reg[x]) /\ Fast(reg[y])
  THEN Put(z, FastRes(Abs(v), reg[x].neg # reg[y].neg), v)
  ELSE Put(z, General(z, v), v)
Rem(z, x, y) == val[y] # 0 /\ LET v == TRem(val[x], val[y]) IN
  IF Fast(reg[x]) /\ Fast(reg[y])
  THEN Put(z, FastRes(Abs(v), reg[x].neg), v)
  ELSE Put(z, General(z, v), v)
Neg(z, x) == LET v == -val[x] IN
  IF ~reg[x].heap THEN Put(z, FastRes(reg[x].mag, ~reg[x].neg), v)       \* copies the inline array, flips the sentinel
  ELSE Put(z, General(z, v), v)
AbsA(z, x) == LET v == Abs(val[x]) IN
  IF ~reg[x].heap THEN Put(z, [neg |-> FALSE, mag |-> reg[x].mag, heap |-> FALSE], v)
  ELSE Put(z, General(z, v), v)
Next == \E z, x, y \in Regs : Add(z, x, y) \/ Mul(z, x, y) \/ Quo(z, x, y) \/ Rem(z, x, y) \/ Neg(z, x) \/ AbsA(z, x)
Bound == \A i \in Regs : Abs(val[i]) <= MaxV
LikeMathBig == \A i \in Regs : Dec(reg[i]) = val[i]
ZeroNotNegative == \A i \in Regs : reg[i].mag = 0 => ~reg[i].neg
InlineFits == \A i \in Regs : ~reg[i].heap => InlineCap(reg[i].mag)
\* ---- unbounded safety with Apalache: the invariants are inductive for ALL integer register values (no MaxV bound)
CInit == U = 4 /\ W = 4 /\ MaxV = 60 /\ Buggy = FALSE
CInitBuggy == U = 4 /\ W = 4 /\ MaxV = 60 /\ Buggy = TRUE
IndInv == /\ LikeMathBig /\ ZeroNotNegative /\ InlineFits
          /\ \A i \in Regs : reg[i].mag >= 0
IndInit == \E v1, v2, m1, m2 \in Int : \E n1, n2, h1, h2 \in BOOLEAN :
           /\ val = [i \in Regs |-> IF i = 1 THEN v1 ELSE v2]
           /\ reg = [i \in Regs |-> IF i = 1 THEN [neg |-> n1, mag |-> m1, heap |-> h1] ELSE [neg |-> n2, mag |-> m2, heap |-> h2]]
           /\ IndInv
=============================================================================
