------------------------------ MODULE MC_Text ------------------------------
(* Ties C13 to C14 at the specification level: for every decimal of a      *)
(* bounded set, each text form is a sentence of the grammar and parses     *)
(* back to the same representation; and ParseSpec is total on short        *)
(* strings over the grammar's alphabet.                                    *)
EXTENDS Text
CONSTANT MaxLen
VARIABLES d, s
Vals == {[f |-> f, n |-> n, c |-> <<>>, e |-> 0] : f \in {INF, SNAN, QNAN}, n \in BOOLEAN}
   \cup {[f |-> FIN, n |-> n, c |-> FromInt(c), e |-> e] : n \in BOOLEAN,
            c \in {0, 1, 9, 10, 12, 123, 1000, 9999, 1234567}, e \in {-2001, -2000, -12, -8, -7, -6, -5, -1, 0, 1, 2, 10}}
Alpha == {48, 57, 43, 45, 46, 101, 69, 105, 110, 102, 97, 115, 32, 78, 116, 121}
D0 == [f |-> FIN, n |-> FALSE, c |-> <<>>, e |-> 0]
Init == d \in Vals /\ s = <<>>
Next == d = D0 /\ Len(s) < MaxLen /\ \E ch \in Alpha : s' = Append(s, ch) /\ UNCHANGED d
RoundTrip == s = <<>> => \A v \in {71, 103, 69, 101} :
               LET p == ParseSpec(TextOf(d, v)) IN p.ok /\ LimitClass(p) = "inside" /\ AbsEq(p, d)
PlainRoundTrip == s = <<>> => LET p == ParseSpec(TextOf(d, 102)) IN
                  p.ok /\ p.f = d.f /\ p.n = d.n /\ (d.f = FIN => NumEq(p.c, p.e, d.c, d.e))
Total == ParseSpec(s).ok \in BOOLEAN
\* the functional grammar and the automaton accept the same strings
SameLanguage == ParseSpec(s).ok = AutomatonAccepts(s)
SciShape == (s = <<>> /\ d.f = FIN /\ ~(IsZero(d.c) /\ d.e \in -2000..-1)) =>
              LET t == ToSci(d)
                  plain == \A i \in 1..Len(t) : t[i] # 69
              IN plain <=> (d.e <= 0 /\ Adj(d) >= -6)
=============================================================================
