INIT Init
NEXT Next
INVARIANTS RoundTrip PlainRoundTrip Total SciShape
CHECK_DEADLOCK FALSE
