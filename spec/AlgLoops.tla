------------------------------ MODULE AlgLoops ------------------------------
(***************************************************************************)
(* C04, layer 2: implementation-shaped model of the iteration loops of     *)
(* Context.Ln (power series, context.go) with the sticky ErrDecimal, and   *)
(* of loop.done (loop.go, used by Cbrt and Ln's Halley iteration) with its *)
(* iteration cap.  Once ed.err is set every ed.* call is a no-op, so the   *)
(* series term is never updated again.                                     *)
(*   CheckErr = FALSE is the loop as it was at the pinned commit: it only  *)
(*   exits when the term is small, and TLC exhibits the lasso              *)
(*   loop -> loop(err) -> loop(err) ... as a counterexample to Returns     *)
(*   (AlgLoops_pinned.cfg, a negative control; the witness Ln(0.999) with  *)
(*   Subnormal trapped hung the real code: fix 110e14f).                   *)
(*   CheckErr = TRUE is the current code: Returns holds.                   *)
(***************************************************************************)
EXTENDS Integers
CONSTANTS Cap,        \* saturation bound of the iteration counter (abstraction)
          MaxIter,    \* loop.done's cap on iterations
          CheckErr    \* the series loop tests ed.Err() after each term
VARIABLES pc, n, edErr, small, kind
vars == <<pc, n, edErr, small, kind>>
Init == pc = "loop" /\ n = 1 /\ edErr = FALSE /\ small = FALSE /\ kind \in {"series", "done-loop"}
\* one iteration of the power series: ed.Mul, ed.Mul, ed.Quo, ed.Add; an internal step may trap
SeriesIter ==
  /\ kind = "series" /\ pc = "loop"
  /\ \/ /\ ~edErr /\ edErr' \in BOOLEAN /\ small' \in BOOLEAN        \* really computed: may trap, may have become small
     \/ /\ edErr /\ edErr' = TRUE /\ small' = FALSE                  \* no-op: tmp4 keeps the value 2n+1 >= 3 > eps
  /\ n' = IF n < Cap THEN n + 1 ELSE n
  /\ pc' = IF CheckErr /\ edErr' THEN "error" ELSE IF small' THEN "after" ELSE "loop"
  /\ UNCHANGED kind
\* one iteration of a loop guarded by loop.done: converged, or error after MaxIter iterations
DoneIter ==
  /\ kind = "done-loop" /\ pc = "loop"
  /\ edErr' \in {edErr, TRUE} /\ small' \in BOOLEAN
  /\ n' = IF n < Cap THEN n + 1 ELSE n
  /\ pc' = IF edErr' THEN "error" ELSE IF small' THEN "after" ELSE IF n >= MaxIter THEN "error" ELSE "loop"
  /\ UNCHANGED kind
Finish == pc \in {"after", "error"} /\ pc' = "returned" /\ UNCHANGED <<n, edErr, small, kind>>
Next == SeriesIter \/ DoneIter \/ Finish
\* fairness: the code keeps running; a term that is really computed eventually becomes small
Spec == Init /\ [][Next]_vars /\ WF_vars(Next) /\ SF_vars(SeriesIter /\ small') /\ SF_vars(DoneIter /\ small')
Returns == <>(pc = "returned")
TypeOK == pc \in {"loop", "after", "error", "returned"} /\ n \in 1..Cap
=============================================================================
