"""Per-property configuration: which spec models are checked, which drivers
exercise the real code, and which rejected conjuncts of which events belong to
the property (a check reports only what its property states)."""

BIN = {"add", "sub", "mul", "quo", "quoint", "rem", "cmp", "pow"}


def special(d):
    return d.get("f", 0) != 0 or not d.get("c")


def has_special(ev):
    return special(ev["x"]) or (ev["op"] in BIN and special(ev["y"]))


def fam(ev, k):
    return ev.get("k") == k


def any_in(names, s):
    return any(n in s for n in names)


C01_OPS = {"add", "sub", "mul", "quo", "abs", "neg", "round", "setstring"}
C02_OPS = {"add", "sub", "mul", "quo", "quoint", "rem", "round", "quantize", "tointx", "reduce", "sqrt", "abs", "neg"}
C07_OPS = {"add", "sub", "mul", "quo", "abs", "neg", "round", "rem", "reduce", "sqrt", "cbrt", "exp", "ln", "log10",
           "pow", "quantize", "setstring", "quoint"}
C09_OPS = {"quantize", "tointx", "tointv", "ceil", "floor"}


def attr_c01(ev, names):
    if fam(ev, "t") and ev.get("tk") == "ctxparse":
        return any_in(names, {"cp-val", "panic"})
    if not fam(ev, "a"):
        return False
    if ev["op"] in C01_OPS or (ev["op"] == "reduce" and ev["ctx"]["p"] == 0):
        return any_in(names, {"val", "sys", "panic"})
    return False


def attr_c02(ev, names):
    if fam(ev, "a") and ev["op"] == "sqrt":
        return any_in(names, {"root", "flags", "flagimp", "nbits"})      # Sqrt's Inexact is part of SqrtOK
    return fam(ev, "a") and ev["op"] in C02_OPS and any_in(names, {"flags", "flagimp", "nbits", "sys"})


def attr_c07(ev, names):
    # "QuoInteger results additionally have exponent 0" is the exp conjunct of quoint events
    return fam(ev, "a") and ev["op"] in C07_OPS and (any_in(names, {"fits", "wf"}) or (ev["op"] == "quoint" and "exp" in names))


def attr_c08(ev, names):
    return fam(ev, "a") and has_special(ev) and any_in(names, {"val", "flags", "panic"})


def attr_c09(ev, names):
    return fam(ev, "a") and ev["op"] in C09_OPS and any_in(names, {"val", "exp", "flags", "rnd", "panic", "sys", "err"})


def attr_c10(ev, names):
    return fam(ev, "a") and ev["op"] in {"quoint", "rem"} and any_in(names, {"val", "exp", "flags", "panic", "sys"})


def attr_c19(ev, names):
    if fam(ev, "a") and ev["op"] == "reduce":
        return any_in(names, {"val", "exp", "cnt", "panic", "sys"})
    if fam(ev, "a") and ev["op"] == "dreduce":
        return any_in(names, {"dval", "panic"})
    return fam(ev, "nd")


PROPS = {
    "C01": dict(
        level_text='RoundOnce (exact value rounded once) is validated against an independent relational restatement, idempotence, monotonicity and the bracket laws by TLC (MC_Round); the implementation-shaped AlgRound refines it (MC_AlgRound, with the pinned tree as negative control), and so do the transcriptions of Context.add / Mul / Abs / Neg / Reduce / Decimal.Cmp (MC_AlgArith, negative control: the -0-under-floor rule removed), which every recorded call must also match bit for bit (alg_model_drift); every recorded Add/Sub/Mul/Quo/Abs/Neg/Round/context-parse call over the spec-exported boundary domain S, the seeded domain L and the GDA vectors is validated by TLC against Spec_<Op>.',
        mc=[("MC_BigNat", None), ("MC_Round", None), ("MC_AlgRound", None), ("MC_AlgRound", "MC_AlgRound_pinned", "expect-violation"),
            ("MC_AlgArith", None), ("MC_AlgArith", "MC_AlgArith_nofloor", "expect-violation")],
        drivers=["arithS", "arithL", "ctxparse", "tableedge", "vectors:add,sub,mul,quo,abs,neg,round"],
        attr=attr_c01,
        rule="every recorded Add/Sub/Mul/Quo/Abs/Neg/Round call (domain S from the spec, seeded domain L) is judged by "
             "Spec_<Op> = RoundOnce(exact result); an event is non-trivial when its result is finite or overflowed "
             "(not a NaN/Inf prologue); distinct = distinct (op, ctx, operands) cases",
    ),
    "C02": dict(
        level_text="The flag laws are theorems of RoundOnce checked by TLC (MC_Round!FlagThm); every recorded arithmetic event's decided condition bits must equal the spec's, with the stated implications; AlgQuo's pinned 'no sticky digit' variant is a negative control.",
        mc=[("MC_Round", None), ("MC_AlgQuo", "MC_AlgQuo_nosticky", "expect-violation")],
        drivers=["arithS", "arithL", "intS", "roots", "tableedge", "vectors:add,sub,mul,quo,quoint,rem,round,quantize,tointx,reduce,sqrt,abs,neg"],
        attr=attr_c02,
        rule="flag conjuncts of every recorded arithmetic event: decided bits equal the spec's, Inexact=>Rounded, "
             "Overflow=>Inexact, Underflow=>Subnormal&Inexact, no bit outside the 12 conditions",
    ),
    "C07": dict(
        level_text="Fits(ctx, result) is a theorem of RoundOnce (MC_Round!FitsThm) and of AlgQuo (MC_AlgQuo, with the pinned 'no carry fix' variant as negative control); it is a conjunct on every recorded finite result of every rounding operation.",
        mc=[("MC_Round", None), ("MC_AlgQuo", None), ("MC_AlgQuo", "MC_AlgQuo_nocarry", "expect-violation")],
        drivers=["arithS", "arithL", "intS", "intL", "transcN", "vectors:add,sub,mul,quo,quoint,rem,abs,neg,round,quantize,reduce,sqrt,cbrt"],
        attr=attr_c07,
        rule="Fits(ctx, result) on every finite result of a rounding operation",
    ),
    "C08": dict(
        level_text='The special-value prologues of Arith (NaN selection, infinities, zeros, the GDA power table) judge every recorded call of every operation over the full product of special operands (incl. infinities/NaNs with stale fields, aliased NaN destinations) and contexts, exhaustively.',
        mc=[("MC_Round", None)],
        drivers=["specials", "vectors:add,sub,mul,quo,quoint,rem,abs,neg,round,quantize,reduce,tointx,tointv,cmp,sqrt,cbrt"],
        attr=attr_c08,
        rule="every operation x every combination of {NaN, sNaN, +-Inf, +-0 with several exponents, finite} operands x "
             "contexts, exhaustively, judged by the special-value prologues of Arith/Roots/Transc",
    ),
    "C09": dict(
        level_text="Spec_Quantize / Spec_ToInt / Spec_CeilFloor (one definition for every magnitude) judge recorded events; AlgQuantize refines the spec (MC_AlgQuantize) with the pinned 'mode ignored' variant as negative control.",
        mc=[("MC_Round", None), ("MC_AlgQuantize", None), ("MC_AlgQuantize", "MC_AlgQuantize_nomode", "expect-violation")],
        drivers=["intS", "intL", "vectors:quantize,tointx,tointv"],
        attr=attr_c09,
        rule="Quantize / RoundToIntegral* / Ceil / Floor events judged by Spec_Quantize, Spec_ToInt, Spec_CeilFloor",
    ),
    "C10": dict(
        level_text='Spec_QuoInt / Spec_Rem are defined by the division identity over exact limb arithmetic and judge every recorded QuoInteger/Rem pair on S, L (gaps to 150 digits) and the GDA vectors; the transcriptions of Context.QuoInteger / Rem (AlgArith) are model-checked to refine them and to satisfy the identity on their own outputs (MC_AlgArith!DivRefines; negative control: remainder with the sign of the quotient), and recorded calls must match them bit for bit (alg_model_drift).',
        mc=[("MC_Round", None), ("MC_AlgArith", None), ("MC_AlgArith", "MC_AlgArith_remsign", "expect-violation")],
        drivers=["intS", "intL", "vectors:quoint,rem"],
        attr=attr_c10,
        rule="QuoInteger / Rem events judged by Spec_QuoInt / Spec_Rem (division identity by construction)",
    ),
}

def attr_group(*gks):
    def f(ev, names):
        return fam(ev, "g") and ev.get("gk") in gks
    return f


PROPS["C20"] = dict(
    level_text="The rounding kernel's bracket/mirror/half-pair/monotonicity laws are proved for all naturals with TLAPS (5 obligations, re-checked every run) and model-checked on RoundOnce; recorded groups (8 modes, swapped/negated/scaled operands, ascending Round inputs) are validated by TraceRel, which imports no arithmetic oracle; ShouldAddOne is bound to the kernel exhaustively.",
    mc=[("MC_Round", None)],
    drivers=[("modes", "TraceRel"), ("rel", "TraceRel"), ("shouldaddone", "TraceRel")],
    tlaps="proofs/Kern.tla",
    attr=lambda ev, names: fam(ev, "sao") or (fam(ev, "g") and ev.get("gk") in ("modes", "mono", "swap", "subneg", "mirror", "scale")),
    rule="groups of recorded executions of one case (8 modes + default; swapped / negated / scaled operands; ascending "
         "Round operands) compared with each other by TraceRel.tla, which imports no arithmetic oracle; distinct = distinct groups",
    technique="TLA+ relational trace validation (TraceRel.tla) of grouped real-code executions; RoundOnce bracket theorems model-checked (MC_Round); TLAPS kernel lemma",
)

def attr_c03(ev, names):
    if fam(ev, "g"):
        return ev.get("gk") == "traps" and any_in(names, {"trap-error", "nil-same", "error-iff", "delivered", "no-trap-no-error", "panic"})
    if fam(ev, "mh"):
        return ev.get("mode") == "ed"
    if fam(ev, "a"):
        return "err" in names
    return fam(ev, "cond")


PROPS["C03"] = dict(
    level_text='MC_ErrDec model-checks the ErrDecimal machine (sticky error, skip after error, flags grow, frame); recorded trap groups (one call under the empty and 32+ trap sets) are validated relationally by TraceRel; recorded ErrDecimal histories are validated step by step with the same EdStep operator. Spec -> code: TLC simulates Gen_Hist (the EdStep machine with outcomes supplied by the layer-2 transcriptions, steered to latch an error early and then attempt only steps that would change their destination); the generated behaviours are replayed through a real ErrDecimal and the recording is judged by layer 1 and compared step by step with the predicted registers, flags and latch.',
    mc=[("MC_ErrDec", None)],
    drivers=[("traps", "TraceRel"), "errdec", "genhist", "conditions"],
    attr=attr_c03,
    rule="each case is executed under the empty trap set and under 32 (thorough: sampled cases under all 4095) trap sets; "
         "TraceRel.tla checks the trap relation between the recorded outcomes; ErrDecimal edges/histories validated against ErrDec.tla",
)
PROPS["C05"] = dict(
    extra_bigint=True,
    level_text='Recorded groups of the same call under every aliasing pattern (real pointer identity) must have identical outcomes (TraceRel); BigInt histories with aliased receivers/arguments are validated by BigIntM; Modf with outputs aliasing the receiver by Conv.',
    mc=[],
    drivers=[("alias", "TraceRel"), "bigint"],
    attr=lambda ev, names: (fam(ev, "g") and ev.get("gk") == "alias") or fam(ev, "bh"),
    rule="each case is executed once per aliasing pattern with real pointer identity; all recorded outcomes must be identical",
)
def attr_c06(ev, names):
    if fam(ev, "sh"):
        return True
    if fam(ev, "g"):
        return ev.get("gk") == "pre" or (ev.get("gk") in ("alias", "traps") and "frame" in names)
    if fam(ev, "a"):
        return any_in(names, {"frame", "ctxframe"})
    if fam(ev, "t"):
        return "parse-pre" in names
    if fam(ev, "cv"):
        return any_in(names, {"codec-pre", "setfloat-pre", "arg-unchanged"}) or ("setint" in names and ev.get("fn") in ("SetInt64", "SetFinite", "ScanInt64"))
    return fam(ev, "mh")


PROPS["C06"] = dict(
    level_text='Recorded groups of the same call into 7 destination pre-states must be identical; register-machine histories are validated with CtxStep against the reference outcome of the same call on clones (history independence, frame, Context and package-state digests unchanged).',
    mc=[("MC_ErrDec", None)],
    drivers=[("pre", "TraceRel"), "machine", "genhist", "parse", "codec", "tableedge"],
    attr=attr_c06,
    rule="each case is executed into 7 destination pre-states; all recorded outcomes must be identical; operands unchanged",
)

PROPS["C15"] = dict(
    level_text='MC_Order checks the order axioms of CmpTotalSpec/CmpSpec on 66^3 triples; recorded comparisons are validated against them and observed 6x6 result matrices against the axioms without an oracle.',
    mc=[("MC_Order", None), ("MC_AlgArith", None), ("MC_AlgArith", "MC_AlgArith_noflip", "expect-violation")],
    drivers=["order", "tableedge"],
    attr=lambda ev, names: ev.get("k") in ("o", "om") or (fam(ev, "a") and ev.get("op") == "cmp" and any_in(names, {"val", "panic", "frame"})),
    rule="every pair of 54 colliding representations plus seeded pairs engineered per code path (equal exponents, equal "
         "values with different exponents, equal adjusted exponents, gaps to +-90000) judged by CmpSpec / CmpTotalSpec; "
         "observed 6x6 result matrices checked for the order axioms without an oracle",
)

PROPS["C19"] = dict(
    level_text='NumDigits judged against the limb length for every decimal-digit boundary to 10^12000 and seeded values; the lookup algorithm of table.go is transcribed (AlgNumDigits) and model-checked equal to the limb length on every value below 2^11 and around every power of two and ten to 10^60 (10^200 thorough), two pinned variants as negative controls, recorded calls compared with it; Reduce (Context and Decimal) judged by value, no trailing zero, count, with destination pre-states.',
    mc=[("MC_BigNat", None), ("MC_AlgArith", None), ("MC_AlgNumDigits", None),
        ("MC_AlgNumDigits", "MC_AlgNumDigits_noborder", "expect-violation"), ("MC_AlgNumDigits", "MC_AlgNumDigits_gt", "expect-violation")],
    drivers=["numdigits", "reduceL"],
    attr=attr_c19,
    rule="NumDigits on every bit length 0..260 at 2^n-1, 2^n, 2^n+1, every power of ten 10^k-1, 10^k, 10^k+1 (k<=80 and "
         "sparse to 1300) of both signs, seeded values to 4096 bits; Reduce on S and trailing-zero-heavy seeded operands",
)

def attr_t(tks, nameset):
    def f(ev, names):
        return fam(ev, "t") and ev.get("tk") in tks and any_in(names, nameset)
    return f


PROPS["C14"] = dict(
    level_text='ParseSpec (functional) and the grammar automaton accept the same language (MC_Text, all strings to length 4/5 over 16 symbols); recorded parse events (all short strings, sentences and mutations, bytes) and formatting events are validated against ParseSpec, ToSci/TextOf and FmtPad.',
    mc=[("MC_Text", None)],
    drivers=["parse", "gentext", "format"],
    attr=attr_t({"parse", "text", "format"}, {"accept", "nilret", "parse-val", "parse-pre", "text", "format", "panic"}),
    rule="parsing: every string of length <=4 (thorough 5) over a 16-symbol alphabet, grammar sentences and their single/"
         "double character mutations, keyword neighbours, limit cases, seeded bytes, through SetString/NewFromString/"
         "UnmarshalText/Scan, judged by ParseSpec; formatting: every Text/String/Marshal/Value/verb form judged by TextOf "
         "and FmtPad",
)
PROPS["C13"] = dict(
    level_text='Every text form is parsed back and compared with the original (relational); MC_Text proves at the spec level that every text form is a grammar sentence that parses back; float64 values are judged as exact dyadic rationals (NearestFin, Shortest).',
    mc=[("MC_Text", None)],
    drivers=["format", "codec"],
    attr=lambda ev, names: (fam(ev, "t") and ev.get("tk") == "text" and any_in(names, {"rt", "panic"}))
    or (fam(ev, "cv") and ev.get("ck") in ("codec", "setfloat")),
    rule="every text form of S, boundary and seeded decimals is parsed back and compared with the original (relational); "
         "Compose(Decompose) and float64 round trips judged by Conv",
)

PROPS["C17"] = dict(
    level_text='Int64Spec, ModfOK, NearestFloat over exact integers / dyadic rationals judge recorded conversions on boundary and seeded values.',
    mc=[("MC_BigNat", None)],
    drivers=["conv"],
    attr=lambda ev, names: fam(ev, "cv") and ev.get("ck") in ("int64", "setint", "float64", "modf", "newbig"),
    rule="Int64 on S, on coefficients around MaxInt64/MinInt64 x 10^k with trailing-zero and positive-exponent forms and "
         "seeded values judged by Int64Spec; New/SetInt64/SetFinite/NewWithBigInt/Scan(int64) on boundary and seeded "
         "int64; Modf with every nil/alias pattern judged by ModfOK; Float64 judged by NearestFloat over exact dyadic rationals",
)

PROPS["C16"] = dict(
    level_text='MC_BigInt model-checks the representation machine (negative-zero fast path as negative control); recorded method histories on three registers with a math/big mirror are validated: defined semantics for the core, mirror equality for the rest, zero/frame/representation invariants after every step.',
    mc=[("MC_BigNat", None), ("MC_BigInt", None)],
    drivers=["bigint"],
    attr=lambda ev, names: fam(ev, "bh"),
    rule="histories of BigInt method calls on three registers (every alias pattern, inline->heap->inline transitions) run in "
         "lock-step with a math/big.Int mirror: the arithmetic core is judged by the spec's own signed-integer semantics "
         "(which thereby also judges the mirror), all other methods by equality with the mirror; zero-not-negative, frame "
         "and representation invariants on every register after every step (representation via the verif hook)",
    level_note="Trusted: TLC, spec/BigIntM.tla semantics for the core, math/big as the reference for the long tail (inherent in "
               "the property's wording), the VerifRepr hook. Bounded exploration.",
)

PROPS["C11"] = dict(
    level_text='SqrtOK / SqrtSubOK / CbrtOK accept by integer inequalities only (no root computed); MC_Roots validates them on small integers incl. the power-of-ten boundary; recorded Sqrt/Cbrt events on boundary-aimed operands are validated.',
    mc=[("MC_Roots", None)],
    drivers=["roots", "vectors:sqrt,cbrt"],
    attr=lambda ev, names: fam(ev, "a") and ev["op"] in ("sqrt", "cbrt") and any_in(names, {"root", "val", "panic", "sys", "wf"}),
    rule="Sqrt/Cbrt on operands aimed at rounding boundaries (r^2+-1, (r+1/2)^2+-eps, all-nines, perfect squares/cubes and "
         "neighbours, odd/even exponents, operands longer than the precision) and seeded operands, accepted by integer "
         "inequalities (SqrtOK / CbrtOK); results outside the normal range are not claimed",
)

PROPS["C12"] = dict(
    level_text='ExpEnclS encloses exp with exact limb arithmetic and directed rounding (self-checked by MC_Transc: ordering, width, known digits, composition, verified ln 10, negative controls); a recorded Exp/Ln/Log10/Pow result is rejected only if provably more than one unit from the enclosure; Pow uses an untrusted hint the spec verifies first.',
    mc=[("MC_Transc", None)],
    mc_workers=1,
    drivers=["transc", "transcN"],
    drivers_thorough=["vectors:exp,ln,log10,pow"],
    attr=lambda ev, names: fam(ev, "a") and ev["op"] in ("exp", "ln", "log10", "pow") and any_in(names, {"transc", "val", "panic", "sys", "wf"}),
    rule="Exp/Ln/Log10/Pow on seeded operands (1..3p digits, arguments near 1, tiny and huge Exp arguments up to the true "
         "overflow threshold, integer and fractional Pow exponents, precision 1..34 weighted to <=16) accepted iff the result "
         "is within one unit of an interval enclosure of the true value built from exact limb arithmetic (ExpEnclS); Pow with "
         "a fractional exponent uses an untrusted hint for ln x that the spec verifies before use; integer powers are exact",
    level_note="Trusted: TLC, the enclosure arithmetic of spec/Transc.tla (self-checked by MC_Transc: ordering, width, known "
               "digits of e, exp(a+b), verified ln 10 literal, negative controls). Low volume: an enclosure costs 0.1-2 s.",
)

def attr_c04(ev, names):
    if fam(ev, "call"):
        return True
    if fam(ev, "t"):
        return any_in(names, {"panic", "parse-wf"})
    if fam(ev, "bh") or fam(ev, "nd"):
        return "panic" in names
    return False


PROPS["C04"] = dict(
    level_text="AlgLoops model-checks termination of the iteration loops under fairness (the pinned Ln loop's lasso is a negative control); every exported entry point is called under recover and a watchdog and the call/return trace is validated: no action admits a panic or timeout; parsed values must be well formed.",
    mc=[("AlgLoops", None), ("AlgLoops", "AlgLoops_pinned", "expect-violation")],
    drivers=["total", "parse", "numdigits", "bigint"],
    api_coverage=True,
    attr=attr_c04,
    rule="every exported entry point (driver table; coverage against `go doc` reported) is called under recover() and a "
         "watchdog on well-formed receivers/arguments (S, L, X incl. +-100000 exponents, specials with stale fields, heap "
         "coefficients, precision 0, trap sets); a panic or a timeout is an event no spec action admits; every parsed value "
         "must be well formed; BigInt methods may panic only where math/big does. AlgLoops model-checks termination of the "
         "iteration loops (liveness) and shows the pinned loop's lasso as a negative control",
    technique="TLA+ liveness model of the iteration loops (TLC) + trace validation of call/return events recorded under a watchdog",
)
PROPS["C16"]["mc"] = [("MC_BigNat", None), ("MC_BigInt", None), ("MC_BigInt", "MC_BigInt_buggy", "expect-violation")]
# unbounded (all integers, no MaxV) with Apalache: the representation invariants are inductive; the buggy fast path is not
PROPS["C16"]["apalache"] = [("MC_BigInt", "CInit", "Init", "IndInv", 0, False),
                            ("MC_BigInt", "CInitBuggy", "IndInit", "IndInv", 1, True),
                            ("MC_BigInt", "CInit", "IndInit", "IndInv", 1, False, "thorough")]
PROPS["C16"]["level_text"] += " For unbounded register values Apalache discharges the same invariants as an inductive invariant (Init => IndInv; IndInv /\\ Next => IndInv' in the thorough tier) and rejects the buggy fast path."

PROPS["C18"] = dict(
    level_text='Conc model-checks all interleavings of the borrow/read/write steps of 3 processes (view-write defect as negative control); 8 goroutines run 160 cases per round on shared Contexts/operands under the Go race detector and every outcome is validated against the call run alone.',
    mc=[("Conc", None), ("Conc", "Conc_viewwrite", "expect-violation")],
    race=True,
    drivers=["conc"],
    attr=lambda ev, names: ev.get("k") in ("conc", "concsnap", "race") or (fam(ev, "a") and any_in(names, {"panic"})),
    rule="8 goroutines execute the same 160 cases per round (every operation family, inline and heap-backed shared operands, "
         "shared Context values) with own destinations, under the Go race detector; every outcome must equal the outcome of "
         "the call run alone, shared operands / Contexts / package tables must be unchanged, and any race report is a violation. "
         "Conc.tla model-checks all interleavings of the borrow/read/write steps (3 processes) and shows the view-write defect "
         "as a negative control",
    level_note="Trusted: TLC, Go's race detector (happens-before based: sees only executed paths), the harness. The spec "
               "contributes the interleaving argument and the sequential oracle; data-race freedom of the implementation is observed.",
    technique="TLA+ interleaving model (TLC) + trace validation of concurrent executions recorded under the Go race detector",
)

HOOK_COMMITS = ["9935482", "75960a2"]
NOT_YET = {}
