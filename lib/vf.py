#!/usr/bin/env python3
"""Orchestrator of the TLA+ model-based verification of cockroachdb/apd.

For one property id it
  1. rebuilds the Go harness against /repo's working tree (build tag `verif`),
  2. runs the property's TLC model-checking configs on the specification alone,
  3. lets TLC export the spec-defined domains, drives the real code over them
     (and over seeded random domains) and records ndjson traces,
  4. validates every recorded event with TLC against spec/Trace.tla (16 shards),
  5. attributes rejected events to properties, subtracts listed known findings,
     writes evidence/<id>.json and replay files.

Exit codes: 0 held / 1 VIOLATION / 2 infrastructure failure (never a verdict).
"""
import concurrent.futures as cf
import hashlib
import json
import os
import re
import shutil
import subprocess
import sys
import tempfile
import time

VERIF = os.path.dirname(os.path.dirname(os.path.abspath(__file__)))
REPO = os.environ.get("VERIF_REPO", "/repo")
SPEC = os.path.join(VERIF, "spec")
JAR = "/opt/veriftools/tla/tla2tools.jar:/opt/veriftools/tla/CommunityModules-deps.jar"
NSHARDS = int(os.environ.get("VERIF_SHARDS", "16"))
GOENV = dict(os.environ, GOFLAGS="-mod=mod", GOPROXY="off", GOSUMDB="off", GOTOOLCHAIN="local",
             CGO_ENABLED=os.environ.get("CGO_ENABLED", "0"))


class Infra(Exception):
    pass


def log(*a):
    print(*a, file=sys.stderr, flush=True)


def java_cmd(heap="2g", workers=1):
    gc = "-XX:+UseSerialGC" if workers == 1 else "-XX:+UseParallelGC"
    return ["java", "-Xss1g", "-Xms512m", "-Xmx" + heap, gc, "-cp", JAR, "tlc2.TLC"]


def copy_spec(dst):
    os.makedirs(dst, exist_ok=True)
    for f in os.listdir(SPEC):
        if f.endswith(".tla") or f.endswith(".cfg"):
            shutil.copy(os.path.join(SPEC, f), dst)


def run_tlc(cwd, module, cfg=None, workers=1, heap="2g", timeout=3600, extra=()):
    """Run TLC in cwd (spec files already copied there). Returns (rc, output)."""
    cmd = java_cmd(heap, workers) + ["-workers", str(workers), "-metadir", os.path.join(cwd, "meta"),
                            "-config", cfg or module + ".cfg"] + list(extra) + [module + ".tla"]
    try:
        p = subprocess.run(cmd, cwd=cwd, stdout=subprocess.PIPE, stderr=subprocess.STDOUT, timeout=timeout, text=True)
    except subprocess.TimeoutExpired as e:
        so = e.stdout or ""
        if isinstance(so, bytes):
            so = so.decode("utf-8", "replace")
        return 124, so + "\nTIMEOUT"
    shutil.rmtree(os.path.join(cwd, "meta"), ignore_errors=True)
    return p.returncode, p.stdout


# what each negative control must be rejected for
NEG_EXPECT = {"MC_AlgRound_pinned": "Refines", "MC_AlgArith_nofloor": "AddRefines", "MC_AlgArith_remsign": "DivRefines",
              "MC_AlgArith_noflip": "CmpRefines", "MC_AlgQuo_nosticky": "Refines", "MC_AlgQuo_nocarry": "Refines",
              "MC_AlgQuantize_nomode": "Refines", "MC_AlgNumDigits_noborder": "Agrees", "MC_AlgNumDigits_gt": "Agrees",
              "MC_BigInt_buggy": "ZeroNotNegative", "AlgLoops_pinned": "Returns", "Conc_viewwrite": "SharedUnchanged"}

STATS_RE = re.compile(r"(\d+) states generated, (\d+) distinct states found")


def tlc_stats(out):
    m = None
    for m in STATS_RE.finditer(out):
        pass
    if not m:
        return 0, 0
    return int(m.group(1)), int(m.group(2))


def tlc_ok(out):
    return "Model checking completed. No error has been found." in out


# --------------------------------------------------------------------------
class Run:
    def __init__(self, pid, tier, seed, keep=False):
        self.pid, self.tier, self.seed, self.keep = pid, tier, seed, keep
        self.t0 = time.time()
        self.work = tempfile.mkdtemp(prefix="verif-%s-" % pid, dir=os.environ.get("VERIF_TMP", "/tmp"))
        self.harness = os.path.join(self.work, "harness")
        self.domain = os.path.join(self.work, "domain")
        self.states = 0
        self.transitions = 0
        self.mc = []
        self.traces = 0
        self.events = 0
        self.classes = {}
        self.drivers = []
        self.rejected = []      # (event, names)
        self.samples = []
        self.notes = []
        self.distinct = 0
        self.distinct_nontrivial = 0
        self.drift = 0
        self.drift_ops = {}
        self.generated_histories = 0
        self.generated_texts = 0
        self.undecided = 0

    def cleanup(self):
        if not self.keep:
            shutil.rmtree(self.work, ignore_errors=True)

    # -- build -------------------------------------------------------------
    def build(self, race=False):
        hdir = os.path.join(self.work, "hsrc")
        shutil.copytree(os.path.join(VERIF, "harness"), hdir)
        gomod = open(os.path.join(hdir, "go.mod")).read().replace("=> /repo", "=> " + REPO)
        open(os.path.join(hdir, "go.mod"), "w").write(gomod)
        shutil.copy(os.path.join(REPO, "go.sum"), os.path.join(hdir, "go.sum"))
        env = dict(GOENV)
        cmd = ["go", "build", "-tags", "verif", "-o", self.harness]
        if race:
            env["CGO_ENABLED"] = "1"
            cmd.insert(2, "-race")
        p = subprocess.run(cmd + ["."], cwd=hdir, env=env, stdout=subprocess.PIPE, stderr=subprocess.STDOUT, text=True)
        if p.returncode != 0:
            raise Infra("harness build failed:\n" + p.stdout)

    def export_domain(self):
        d = self.domain
        copy_spec(d)
        rc, out = run_tlc(d, "Gen_Domain", timeout=300)
        if not tlc_ok(out) or not os.path.exists(os.path.join(d, "domainS.ndjson")):
            raise Infra("domain export failed:\n" + out[-3000:])

    def export_histories(self):
        """Spec -> code: TLC simulates Gen_Hist (ErrDecimal / Context histories with the state the layer-2
        transcriptions predict after every step) and the behaviours are written to histS.ndjson for the
        'genhist' driver to replay on real objects."""
        d = os.path.join(self.work, "gen_hist")
        copy_spec(d)
        per_worker = 400 if self.tier == "quick" else 6000
        rc, out = run_tlc(d, "Gen_Hist", workers=4, heap="3g", timeout=1800,
                          extra=["-simulate", "num=%d" % per_worker, "-depth", "11", "-seed", str(self.seed)])
        hs = []
        for m in re.finditer(r'<<"HIST", "((?:[^"\\]|\\.)*)">>', out):
            hs.append(json.loads(json.loads('"' + m.group(1) + '"')))
        if not hs or "Error:" in out:
            raise Infra("history generation failed:\n" + out[-3000:])
        with open(os.path.join(self.domain, "histS.ndjson"), "w") as f:
            for h in hs:
                f.write(json.dumps(h, separators=(",", ":")) + "\n")
        shutil.rmtree(d, ignore_errors=True)
        self.generated_histories = len(hs)

    def export_texts(self):
        """Spec -> code: TLC simulates Gen_Text (walks of the grammar automaton Text!Step: sentences, sentence prefixes
        and prefixes derailed by one symbol); written to textS.ndjson for the 'gentext' driver."""
        d = os.path.join(self.work, "gen_text")
        copy_spec(d)
        per_worker = 250 if self.tier == "quick" else 4000
        rc, out = run_tlc(d, "Gen_Text", workers=4, heap="3g", timeout=1800,
                          extra=["-simulate", "num=%d" % per_worker, "-depth", "24", "-seed", str(self.seed)])
        ss = set()
        for m in re.finditer(r'<<"TEXT", <<([0-9, ]*)>>>>', out):
            ss.add(tuple(int(x) for x in m.group(1).split(",") if x.strip()))
        if not ss or "Error:" in out:
            raise Infra("text generation failed:\n" + out[-3000:])
        with open(os.path.join(self.domain, "textS.ndjson"), "w") as f:
            for t in sorted(ss):
                f.write(json.dumps(list(t), separators=(",", ":")) + "\n")
        shutil.rmtree(d, ignore_errors=True)
        self.generated_texts = len(ss)

    # -- spec-only model checking -------------------------------------------
    def model_check(self, module, cfg=None, workers=16, heap="6g", timeout=3600, extra=(), expect_violation=False):
        d = os.path.join(self.work, "mc_" + (cfg or module).replace(".cfg", ""))
        copy_spec(d)
        t = time.time()
        rc, out = run_tlc(d, module, cfg, workers=workers, heap=heap, timeout=timeout, extra=extra)
        gen, dist = tlc_stats(out)
        ok = tlc_ok(out)
        if expect_violation:
            # negative control: the model of the defective variant MUST be rejected by TLC - and for the stated reason
            want = NEG_EXPECT.get((cfg or module).replace(".cfg", ""))
            if want:
                ok = bool(re.search(r"Invariant %s is violated|Temporal propert(y|ies) %s (was|were) violated" % (want, want), out))
            else:
                ok = bool(re.search(r"Temporal propert(y|ies) .*violated|Invariant \S+ is violated", out))
        self.mc.append({"module": module, "cfg": cfg or module + ".cfg", "ok": ok, "generated": gen,
                        "distinct": dist, "wall_s": round(time.time() - t, 1),
                        "negative_control": bool(expect_violation)})
        self.states += dist
        self.transitions += gen
        shutil.rmtree(d, ignore_errors=True)
        if not ok:
            raise Infra("model check %s/%s failed (a defect of the SPECIFICATION, not a verdict about the code):\n%s"
                        % (module, cfg, out[-4000:]))
        return out

    # -- drive the real code -------------------------------------------------
    def drive(self, driver, outdir=None, env=None):
        sel = None
        if ":" in driver:                       # "vectors:sqrt,cbrt" = the vectors driver restricted to these operations
            driver, sel = driver.split(":", 1)
        outdir = outdir or os.path.join(self.work, "tr_" + driver)
        if driver == "genhist" and not os.path.exists(os.path.join(self.domain, "histS.ndjson")):
            self.export_histories()
        if driver == "gentext" and not os.path.exists(os.path.join(self.domain, "textS.ndjson")):
            self.export_texts()
        e = dict(os.environ, VERIF_DOMAIN_DIR=self.domain, VERIF_REPO=REPO)
        if sel:
            e["VERIF_VEC_OPS"] = sel
        if env:
            e.update(env)
        p = subprocess.run([self.harness, "drive", driver, self.tier, str(self.seed), outdir, str(NSHARDS)],
                           env=e, stdout=subprocess.PIPE, stderr=subprocess.PIPE, text=True)
        race_exit = p.returncode == 66 and env and "GORACE" in env      # the race detector's exit status: reports were written
        if p.returncode != 0 and not race_exit:
            raise Infra("driver %s failed rc=%d:\n%s" % (driver, p.returncode, p.stderr[-3000:]))
        info = json.loads(p.stdout.strip().splitlines()[-1])
        self.drivers.append(info)
        self.distinct += info.get("distinct", 0)
        self.distinct_nontrivial += info.get("distinct_nontrivial", 0)
        for k, v in info["classes"].items():
            self.classes[k] = self.classes.get(k, 0) + v
        return outdir

    # -- validate a sharded trace ---------------------------------------------
    def validate(self, outdir, module="Trace", heap=None, timeout=7200):
        heap = heap or ("3g" if self.tier == "thorough" else "2g")      # ndJsonDeserialize keeps the whole shard in memory
        shards = sorted(d for d in os.listdir(outdir) if d.startswith("shard"))

        def one(sh):
            d = os.path.join(outdir, sh)
            tf = os.path.join(d, "trace.ndjson")
            if not os.path.exists(tf) or os.path.getsize(tf) == 0:
                return sh, 0, [], None
            copy_spec(d)
            rc, out = run_tlc(d, module, timeout=timeout, heap=heap)
            if not tlc_ok(out):
                # one retry (DESIGN 5: a failed shard is retried once)
                rc, out = run_tlc(d, module, timeout=timeout, heap=heap)
            return sh, rc, out, d

        results = []
        with cf.ThreadPoolExecutor(max_workers=NSHARDS) as ex:
            for r in ex.map(one, shards):
                results.append(r)
        nrej = 0
        for sh, rc, out, d in results:
            if d is None:
                continue
            if not tlc_ok(out):
                raise Infra("trace validation run failed in %s:\n%s" % (sh, out[-4000:]))
            gen, dist = tlc_stats(out)
            # split at \n only (str.splitlines would also split at U+0085, U+2028 ... inside recorded strings)
            lines = [ln for ln in open(os.path.join(d, "trace.ndjson"), encoding="utf-8", errors="replace").read().split("\n") if ln]
            if dist != len(lines) + 1:
                raise Infra("trace %s not fully consumed: %d states for %d events" % (sh, dist, len(lines)))
            self.states += dist
            self.transitions += gen
            self.traces += 1
            self.events += len(lines)
            if len(self.samples) < 3 and lines:
                self.samples.append(json.loads(lines[len(lines) // 2]))
            self.drift += len(re.findall(r'<<"DRIFT", \d+', out))
            for m in re.finditer(r'<<"DRIFT", (\d+), "(\w*)", "(\w*)">>', out):
                self.drift_ops[m.group(3) or m.group(2)] = self.drift_ops.get(m.group(3) or m.group(2), 0) + 1
            self.undecided += out.count('"UNDECIDED-HINT"')
            for m in re.finditer(r'<<"VIOL", (\d+), \{([^}]*)\}>>', out):
                ln = int(m.group(1))
                names = [s.strip().strip('"') for s in m.group(2).split(",") if s.strip()]
                self.rejected.append((json.loads(lines[ln - 1]), names))
                nrej += 1
        if not self.keep:
            shutil.rmtree(outdir, ignore_errors=True)
        return nrej

    def judge_events(self, events, module="Trace"):
        """Validate a small list of events; returns list of (event, names)."""
        d = tempfile.mkdtemp(prefix="j", dir=self.work)
        sd = os.path.join(d, "shard00")
        os.makedirs(sd)
        with open(os.path.join(sd, "trace.ndjson"), "w") as f:
            for e in events:
                f.write(json.dumps(e, separators=(",", ":")) + "\n")
        before = len(self.rejected)
        self.validate(d, module)
        rej = self.rejected[before:]
        del self.rejected[before:]
        return rej

    def reexec(self, events):
        inp = "".join(json.dumps(e, separators=(",", ":")) + "\n" for e in events)
        p = subprocess.run([self.harness, "exec"], input=inp, env=dict(os.environ, VERIF_DOMAIN_DIR=self.domain),
                           stdout=subprocess.PIPE, stderr=subprocess.PIPE, text=True)
        if p.returncode != 0:
            raise Infra("harness exec failed:\n" + p.stderr[-2000:])
        return [json.loads(l) for l in p.stdout.splitlines() if l.strip()]


# --------------------------------------------------------------------------
# canonical key of an event's CASE (inputs only) for known-finding matching
def dec_str(d):
    if d is None:
        return "-"
    f = d.get("f", 0)
    s = "-" if d.get("n") else "+"
    if f in (1, 2, 3):
        name = s + {1: "Inf", 2: "sNaN", 3: "NaN"}[f]
        if d.get("c") or d.get("e"):
            v = 0
            for limb in reversed(d.get("c", [])):
                v = v * 1000 + limb
            name += "[stale %dE%d]" % (v, d.get("e", 0))
        return name
    if f == -1:
        return "fresh"
    v = 0
    for limb in reversed(d.get("c", [])):
        v = v * 1000 + limb
    return "%s%dE%d%s" % (s, v, d.get("e", 0), "(heap)" if d.get("hp") else "")


def ctx_str(c):
    return "p%d,emin%d,emax%d,%s,t%d" % (c["p"], c["emin"], c["emax"], c["r"] or "default", c.get("t", 0))


def case_key(ev):
    k = ev.get("k")
    if k == "a":
        parts = [ev["op"], ctx_str(ev["ctx"]), dec_str(ev["x"])]
        if ev["op"] in ("add", "sub", "mul", "quo", "quoint", "rem", "cmp", "pow"):
            parts.append(dec_str(ev["y"]))
        if ev["op"] == "quantize":
            parts.append("q%d" % ev["q"])
        if ev.get("al"):
            parts.append("alias=" + ev["al"])
        if ev.get("pre", {}).get("f", -1) >= 0:
            parts.append("pre=" + dec_str(ev["pre"]))
        return "|".join(parts)
    if "key" in ev:
        return ev["key"]
    return hashlib.sha1(json.dumps(ev, sort_keys=True).encode()).hexdigest()[:16]


def load_known():
    p = os.path.join(VERIF, "known_findings.json")
    if not os.path.exists(p):
        return []
    return json.load(open(p)).get("findings", [])


def write_evidence(run, level, violations, rule, extra=None, assumptions=None, nontrivial=None):
    cov = {
        "states": max(run.states, 1),
        "transitions": max(run.transitions, 1),
        "traces_validated_against_impl": run.traces,
        "samples": run.samples or [{"note": "no trace event sampled"}],
        "evaluations": run.events,
        "distinct_events": run.distinct,
        "distinct_nontrivial": run.distinct_nontrivial,
        "rule": rule + " | distinct = distinct recorded events (64-bit hash of the event, counted by the harness); non-trivial = not "
                       "decided by a NaN/infinity prologue and with a non-zero result or a raised condition (call events), a string "
                       "longer than one byte or accepted (parse events), every event of the other families",
        "events_validated": run.events,
        "events_by_class": run.classes,
        "model_checks": run.mc,
        "drivers": run.drivers,
        "exhaustive": False,
        "alg_model_drift": run.drift,
        "alg_model_drift_by_op": run.drift_ops,
        "tlc_generated_histories_replayed": run.generated_histories,
        "tlc_generated_strings_replayed": run.generated_texts,
        "undecided_events": run.undecided,
    }
    if extra:
        cov.update(extra)
    ev = {
        "property_id": run.pid,
        "tier": run.tier,
        "seed": run.seed,
        "level": level,
        "coverage": cov,
        "assumptions": assumptions or [],
        "wall_s": round(time.time() - run.t0, 1),
        "violations": violations,
    }
    edir = os.environ.get("VERIF_EVIDENCE_DIR") or os.path.join(VERIF, "evidence")
    os.makedirs(edir, exist_ok=True)
    tmp = os.path.join(edir, run.pid + ".json.tmp")
    json.dump(ev, open(tmp, "w"), indent=1)
    os.replace(tmp, os.path.join(edir, run.pid + ".json"))


def write_replay(pid, ev, names):
    rdir = os.environ.get("VERIF_REPLAY_DIR") or os.path.join(VERIF, "replays")
    os.makedirs(rdir, exist_ok=True)
    key = case_key(ev)
    h = hashlib.sha1((pid + key).encode()).hexdigest()[:12]
    path = os.path.join(rdir, "%s-%s.json" % (pid, h))
    json.dump({"property": pid, "key": key, "rejected_conjuncts": names, "event": ev}, open(path, "w"), indent=1)
    return path
